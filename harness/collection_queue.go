package collection

// verifHarnessQueue: the scheduler's queue is FIFO. Any sequence of n Push/Pop operations
// (operation kinds chosen by fork, pushed values arbitrary) returns the values in the order
// they were pushed, Len agrees with a reference slice after every step, and Iter drains the
// rest in order. The topological order that Build and findOptimalPool rely on (every
// input-free provider is yielded before any provider with inputs) is the queue's order.
func verifHarnessQueue(n int) {
	q := NewQueue[int]()
	var ref []int
	for i := 0; i < n; i++ {
		if verifChoice(2) == 0 {
			v := verifNondetInt()
			q.Push(v)
			ref = append(ref, v)
		} else {
			verifAssume(len(ref) > 0)
			verifAssert(q.Peek() == ref[0], "peek")
			got := q.Pop()
			verifAssert(got == ref[0], "fifo")
			ref = ref[1:]
		}
		verifAssert(q.Len() == len(ref), "len")
	}
	q.Iter(func(v int) bool {
		if len(ref) == 0 {
			verifAssert(false, "iter-extra")
			return false
		}
		verifAssert(v == ref[0], "iter-fifo")
		ref = ref[1:]
		return true
	})
	verifAssert(len(ref) == 0, "iter-drained")
	verifAssert(q.Len() == 0, "len-after-iter")
	verifReach("end")
}
