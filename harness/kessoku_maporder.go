package kessoku

import (
	"go/ast"
	"go/types"
)

type verifWriter struct{ n int }

func (w *verifWriter) Write(p []byte) (int, error) { w.n += len(p); return len(p), nil }

// verifHarnessGenerateImports: the import block Generate emits must not depend
// on the iteration order of the imports map. format.Node is stubbed: it
// records the import paths of the file it is given, in order.
func verifHarnessGenerateImports(n int) {
	// concrete, pairwise distinct paths: every iteration order of the map is
	// explored (the interpreter picks the permutation), the sort must undo it
	all := []string{"b/x", "a", "c/y/z", "b"}
	paths := all[:n]
	run := func() {
		md := &MetaData{Package: Package{Name: "p", Path: "p"}, Imports: map[string]*Import{}}
		for _, p := range paths {
			md.Imports[p] = &Import{Name: p, IsDefaultName: true, IsUsed: true}
		}
		verifMapOrderFree(true)
		_ = Generate(&verifWriter{}, "x.go", md, nil, NewVarPool())
		verifMapOrderFree(false)
	}
	run()
	verifLog("split", 0)
	run()
	verifReach("end")
}

// verifMTyp is a token type: findMaximumAntichainSize touches types only through String().
type verifMTyp struct{ name string }

func (t *verifMTyp) Underlying() types.Type { return t }
func (t *verifMTyp) String() string         { return t.name }

var verifMTypNames = [...]string{"TA", "TB", "TC", "TD", "TE"}

// verifHarnessAntichain: the pool count must not depend on the iteration order
// of the edge map.
func verifHarnessAntichain(n int) {
	g := &Graph{edges: make(map[*node][]*edgeNode), reverseEdges: make(map[*node][]*node)}
	nodes := make([]*node, n)
	for i := range nodes {
		nodes[i] = &node{providerSpec: &ProviderSpec{Provides: [][]types.Type{{&verifMTyp{name: verifMTypNames[i]}}}}}
		g.nodes = append(g.nodes, nodes[i])
	}
	for i := 0; i < n; i++ {
		for j := i + 1; j < n; j++ {
			if verifChoice(2) == 1 {
				g.edges[nodes[j]] = append(g.edges[nodes[j]], &edgeNode{node: nodes[i]})
				g.reverseEdges[nodes[i]] = append(g.reverseEdges[nodes[i]], nodes[j])
			}
		}
	}
	verifMapOrderFree(true)
	a := g.findMaximumAntichainSize()
	b := g.findMaximumAntichainSize()
	verifMapOrderFree(false)
	verifAssert(a == b, "antichain-size-depends-on-map-order")
	verifReach("end")
}

// verifHarnessUsedImports: GetUsedImports keeps exactly the used entries.
func verifHarnessUsedImports(n int) {
	imps := map[string]*Import{}
	want := 0
	for i := 0; i < n; i++ {
		used := verifChoice(2) == 1
		if used {
			want++
		}
		imps[verifMTypNames[i]] = &Import{Name: verifMTypNames[i], IsUsed: used}
	}
	verifMapOrderFree(true)
	got := GetUsedImports(imps)
	verifMapOrderFree(false)
	verifAssert(len(got) == want, "used-imports-count")
	for k, v := range imps {
		_, in := got[k]
		verifAssert(in == v.IsUsed, "used-imports-membership")
	}
	verifReach("end")
}

var _ ast.Node
