package kessoku

import (
	"errors"
	"go/token"
	"go/types"
	"strings"
)

// Type tokens are real go/types types (pointer to a named struct). Tokens 0 and 1 have the
// same type name and the same package *name* but different package paths (the
// text/template vs html/template situation); the others live in one further package.
var verifTypNames = [...]string{"TA", "TA", "TC", "TD", "TE"}

var verifTypPkgs = [...][2]string{{"example.com/a/model", "model"}, {"example.com/b/model", "model"}, {"example.com/u", "u"}, {"example.com/u", "u"}, {"example.com/u", "u"}}

// verifCTyp is the token type of the cycle-detection harness.
type verifCTyp struct{ name string }

func (t *verifCTyp) Underlying() types.Type { return t }
func (t *verifCTyp) String() string         { return t.name }

var verifCTypNames = [...]string{"TA", "TB", "TC", "TD", "TE"}

func verifTokens(n int) []types.Type {
	pkgs := map[string]*types.Package{}
	out := make([]types.Type, n)
	for i := range out {
		pp := verifTypPkgs[i]
		pkg := pkgs[pp[0]]
		if pkg == nil {
			pkg = types.NewPackage(pp[0], pp[1])
			pkgs[pp[0]] = pkg
		}
		out[i] = types.NewPointer(types.NewNamed(types.NewTypeName(token.NoPos, pkg, verifTypNames[i], nil), types.NewStruct(nil, nil), nil))
	}
	return out
}

// verifHarnessDetectCycles: the real detectCycles on every relation over n
// nodes (self-loops and parallel edges included); complete and sound, and the
// diagnostic is a closed walk of the relation.
func verifHarnessDetectCycles(n int, parallel bool) {
	g := &Graph{edges: make(map[*node][]*edgeNode), reverseEdges: make(map[*node][]*node)}
	nodes := make([]*node, n)
	for i := range nodes {
		// cycle detection touches types only through String(): light token types keep the
		// 2^(n*n) relations affordable
		nodes[i] = &node{providerSpec: &ProviderSpec{Provides: [][]types.Type{{&verifCTyp{name: verifCTypNames[i]}}}}}
		g.nodes = append(g.nodes, nodes[i])
	}
	adj := make([][]bool, n)
	for i := range adj {
		adj[i] = make([]bool, n)
	}
	for i := 0; i < n; i++ {
		for j := 0; j < n; j++ {
			k := 2
			if parallel {
				k = 3
			}
			c := verifChoice(k)
			for m := 0; m < c; m++ {
				g.edges[nodes[i]] = append(g.edges[nodes[i]], &edgeNode{node: nodes[j], provideArgDst: m})
				g.reverseEdges[nodes[j]] = append(g.reverseEdges[nodes[j]], nodes[i])
			}
			adj[i][j] = c > 0
		}
	}
	// reference: transitive closure
	reach := make([][]bool, n)
	for i := range reach {
		reach[i] = append([]bool{}, adj[i]...)
	}
	for k := 0; k < n; k++ {
		for i := 0; i < n; i++ {
			for j := 0; j < n; j++ {
				if reach[i][k] && reach[k][j] {
					reach[i][j] = true
				}
			}
		}
	}
	want := false
	for i := 0; i < n; i++ {
		if reach[i][i] {
			want = true
		}
	}
	err := g.detectCycles()
	verifAssert((err != nil) == want, "cycle-detection-verdict")
	if err != nil {
		var ce *CycleError
		ok := errors.As(err, &ce)
		verifAssert(ok, "cycle-error-type")
		if ok {
			idx := func(x *node) int {
				for i, y := range nodes {
					if x == y {
						return i
					}
				}
				return -1
			}
			walk := len(ce.Cycle) > 0
			for p := range ce.Cycle {
				a, b := idx(ce.Cycle[p]), idx(ce.Cycle[(p+1)%len(ce.Cycle)])
				if a < 0 || b < 0 || !adj[a][b] {
					walk = false
				}
			}
			verifAssert(walk, "diagnostic-is-a-cycle")
			msg := ce.Error()
			for _, x := range ce.Cycle {
				verifAssert(strings.Contains(msg, verifCTypNames[idx(x)]), "diagnostic-names-types")
			}
		}
	}
	verifReach("end")
}

// verifHarnessNewGraph: the real NewGraph on every declaration with np
// providers over nt type tokens (function providers with 1..2 results and any
// requirement subset, or Struct expansions with 1..2 fields), any requested
// token, all requirements supplied. Refused iff the reference says so.
func verifHarnessNewGraph(np, nt int) {
	toks := verifTokens(nt)
	type rp struct {
		isStruct bool
		src      int
		provides []int
		requires []int
	}
	var ref []rp
	build := &BuildDirective{InjectorName: "InitX"}
	for p := 0; p < np; p++ {
		if verifChoice(2) == 1 {
			// Struct[toks[s]] with fields
			s := verifChoice(nt)
			nf := 1 + verifChoice(2)
			r := rp{isStruct: true, src: s}
			spec := &ProviderSpec{Type: ProviderTypeStruct, StructType: toks[s], Provides: [][]types.Type{{toks[s]}}, Requires: []types.Type{toks[s]}}
			for f := 0; f < nf; f++ {
				ft := verifChoice(nt)
				r.provides = append(r.provides, ft)
				spec.StructFields = append(spec.StructFields, &StructFieldSpec{Type: toks[ft], Name: "F" + verifTypNames[f], Index: f})
			}
			ref = append(ref, r)
			build.Providers = append(build.Providers, spec)
			continue
		}
		r := rp{}
		spec := &ProviderSpec{Type: ProviderTypeFunction}
		nr := 1 + verifChoice(2)
		for k := 0; k < nr; k++ {
			t := verifChoice(nt)
			r.provides = append(r.provides, t)
			spec.Provides = append(spec.Provides, []types.Type{toks[t]})
		}
		for t := 0; t < nt; t++ {
			if verifChoice(2) == 1 {
				r.requires = append(r.requires, t)
				spec.Requires = append(spec.Requires, toks[t])
			}
		}
		ref = append(ref, r)
		build.Providers = append(build.Providers, spec)
	}
	req := verifChoice(nt)
	build.Return = &Return{Type: toks[req]}

	// ---- reference -------------------------------------------------------
	supplier := make([]int, nt) // provider index supplying token, -1 none
	for i := range supplier {
		supplier[i] = -1
	}
	dup, orphan := false, false
	for p, r := range ref {
		if r.isStruct {
			continue
		}
		for _, t := range r.provides {
			if supplier[t] >= 0 && supplier[t] != p {
				dup = true
			}
			if supplier[t] < 0 {
				supplier[t] = p
			}
		}
	}
	// field suppliers are numbered np+ (struct index*4+field)
	fieldOf := map[int][2]int{}
	for p, r := range ref {
		if !r.isStruct {
			continue
		}
		if supplier[r.src] < 0 || supplier[r.src] >= np {
			// the struct's source must be a (non-field) provider registered in pass 1
			if supplier[r.src] < 0 {
				orphan = true
			}
		}
		for f, t := range r.provides {
			if supplier[t] >= 0 {
				dup = true
			} else {
				id := np + p*4 + f
				supplier[t] = id
				fieldOf[id] = [2]int{p, r.src}
			}
		}
	}
	// every requirement must be supplied (argument creation needs real go/types values)
	allSupplied := supplier[req] >= 0
	for _, r := range ref {
		for _, t := range r.requires {
			if supplier[t] < 0 {
				allSupplied = false
			}
		}
	}
	verifAssume(allSupplied || dup || orphan)
	cycle := false
	if !dup && !orphan && allSupplied {
		// DFS over suppliers reachable from the request
		state := map[int]int{}
		var visit func(s int)
		visit = func(s int) {
			if state[s] == 1 {
				cycle = true
				return
			}
			if state[s] == 2 {
				return
			}
			state[s] = 1
			var reqs []int
			if s >= np {
				reqs = []int{fieldOf[s][1]}
			} else {
				reqs = ref[s].requires
			}
			for _, t := range reqs {
				visit(supplier[t])
			}
			state[s] = 2
		}
		visit(supplier[req])
	}
	md := &MetaData{Imports: map[string]*Import{}, Package: Package{Name: "p", Path: "p"}}
	_, err := NewGraph(md, build, NewVarPool())
	// the first refusal reason NewGraph meets depends on its pass order; the
	// verdict (refused or not) must equal the reference's disjunction
	verifAssert((err != nil) == (dup || orphan || cycle), "newgraph-verdict")
	if err != nil {
		msg := err.Error()
		named := false
		for i := 0; i < nt; i++ {
			if strings.Contains(msg, verifTypNames[i]) {
				named = true
			}
		}
		verifAssert(named, "diagnostic-names-a-type")
	}
	verifReach("end")
}

// verifHarnessProcess drives the real Processor over nfiles files with the
// parser, graph construction, generation and file creation stubbed.
func verifHarnessProcess(nfiles int) error {
	files := []string{"a.go", "b.go", "c.go"}[:nfiles]
	return NewProcessor().ProcessFiles(files)
}
