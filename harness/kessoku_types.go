package kessoku

import (
	"go/ast"
	"go/token"
	"go/types"
	"strconv"
)

// verifRenderAST prints a type expression ignoring parameter/result names.
func verifRenderAST(e ast.Expr) string {
	switch x := e.(type) {
	case nil:
		return "<nil>"
	case *ast.Ident:
		return x.Name
	case *ast.BasicLit:
		return x.Value
	case *ast.StarExpr:
		return "*" + verifRenderAST(x.X)
	case *ast.SelectorExpr:
		return verifRenderAST(x.X) + "." + x.Sel.Name
	case *ast.ArrayType:
		if x.Len == nil {
			return "[]" + verifRenderAST(x.Elt)
		}
		return "[" + verifRenderAST(x.Len) + "]" + verifRenderAST(x.Elt)
	case *ast.Ellipsis:
		return "..." + verifRenderAST(x.Elt)
	case *ast.MapType:
		return "map[" + verifRenderAST(x.Key) + "]" + verifRenderAST(x.Value)
	case *ast.ParenExpr:
		return verifRenderAST(x.X)
	case *ast.ChanType:
		// the printed text "chan <-chan T" parses as chan<- (chan T): render what is read back
		if inner, ok := x.Value.(*ast.ChanType); ok && x.Dir == ast.SEND|ast.RECV && inner.Dir == ast.RECV {
			return "chan<- chan " + verifRenderAST(inner.Value)
		}
		switch x.Dir {
		case ast.SEND:
			return "chan<- " + verifRenderAST(x.Value)
		case ast.RECV:
			return "<-chan " + verifRenderAST(x.Value)
		}
		return "chan " + verifRenderAST(x.Value)
	case *ast.FuncType:
		return "func" + verifRenderFields(x.Params, true) + verifRenderResults(x.Results)
	case *ast.IndexExpr:
		return verifRenderAST(x.X) + "[" + verifRenderAST(x.Index) + "]"
	case *ast.IndexListExpr:
		s := verifRenderAST(x.X) + "["
		for i, ix := range x.Indices {
			if i > 0 {
				s += ","
			}
			s += verifRenderAST(ix)
		}
		return s + "]"
	case *ast.StructType:
		s := "struct{"
		if x.Fields != nil {
			for i, f := range x.Fields.List {
				if i > 0 {
					s += ";"
				}
				if len(f.Names) == 0 {
					s += "embedded " + verifRenderAST(f.Type)
				} else {
					s += f.Names[0].Name + " " + verifRenderAST(f.Type)
				}
				if f.Tag != nil {
					s += " tag=" + f.Tag.Value
				}
			}
		}
		return s + "}"
	case *ast.InterfaceType:
		s := "interface{"
		if x.Methods != nil {
			for i, f := range x.Methods.List {
				if i > 0 {
					s += ";"
				}
				if len(f.Names) > 0 {
					ft, _ := f.Type.(*ast.FuncType)
					if ft != nil {
						s += f.Names[0].Name + verifRenderFields(ft.Params, true) + verifRenderResults(ft.Results)
					} else {
						s += f.Names[0].Name + " " + verifRenderAST(f.Type)
					}
				} else {
					s += "embedded " + verifRenderAST(f.Type)
				}
			}
		}
		return s + "}"
	}
	return "?"
}

func verifRenderFields(fl *ast.FieldList, parens bool) string {
	s := "("
	if fl != nil {
		first := true
		for _, f := range fl.List {
			n := len(f.Names)
			if n == 0 {
				n = 1
			}
			for k := 0; k < n; k++ {
				if !first {
					s += ","
				}
				first = false
				s += verifRenderAST(f.Type)
			}
		}
	}
	return s + ")"
}

func verifRenderResults(fl *ast.FieldList) string {
	if fl == nil || len(fl.List) == 0 {
		return ""
	}
	return " " + verifRenderFields(fl, true)
}

// verifRenderType is the reference: how the type is written in a file of
// package pkg whose imports use the packages' default names.
func verifRenderType(t types.Type, pkg string) string {
	switch x := t.(type) {
	case *types.Basic:
		if x.Kind() == types.UnsafePointer {
			return "unsafe.Pointer"
		}
		return x.Name()
	case *types.Pointer:
		return "*" + verifRenderType(x.Elem(), pkg)
	case *types.Named:
		s := x.Obj().Name()
		if p := x.Obj().Pkg(); p != nil && p.Path() != pkg {
			s = p.Name() + "." + s
		}
		if ta := x.TypeArgs(); ta != nil && ta.Len() > 0 {
			s += "["
			for i := 0; i < ta.Len(); i++ {
				if i > 0 {
					s += ","
				}
				s += verifRenderType(ta.At(i), pkg)
			}
			s += "]"
		}
		return s
	case *types.Slice:
		return "[]" + verifRenderType(x.Elem(), pkg)
	case *types.Array:
		return "[" + strconv.FormatInt(x.Len(), 10) + "]" + verifRenderType(x.Elem(), pkg)
	case *types.Map:
		return "map[" + verifRenderType(x.Key(), pkg) + "]" + verifRenderType(x.Elem(), pkg)
	case *types.Chan:
		switch x.Dir() {
		case types.SendOnly:
			return "chan<- " + verifRenderType(x.Elem(), pkg)
		case types.RecvOnly:
			return "<-chan " + verifRenderType(x.Elem(), pkg)
		}
		return "chan " + verifRenderType(x.Elem(), pkg)
	case *types.Signature:
		return "func" + verifRenderSig(x, pkg)
	case *types.Struct:
		s := "struct{"
		for i := 0; i < x.NumFields(); i++ {
			if i > 0 {
				s += ";"
			}
			f := x.Field(i)
			if f.Embedded() {
				s += "embedded " + verifRenderType(f.Type(), pkg)
			} else {
				s += f.Name() + " " + verifRenderType(f.Type(), pkg)
			}
			if tag := x.Tag(i); tag != "" {
				s += " tag=" + strconv.Quote(tag)
			}
		}
		return s + "}"
	case *types.Interface:
		s := "interface{"
		n := 0
		for i := 0; i < x.NumExplicitMethods(); i++ {
			if n > 0 {
				s += ";"
			}
			n++
			m := x.ExplicitMethod(i)
			s += m.Name() + verifRenderSig(m.Type().(*types.Signature), pkg)
		}
		for i := 0; i < x.NumEmbeddeds(); i++ {
			if n > 0 {
				s += ";"
			}
			n++
			s += "embedded " + verifRenderType(x.EmbeddedType(i), pkg)
		}
		return s + "}"
	}
	return "?"
}

func verifRenderSig(sig *types.Signature, pkg string) string {
	s := "("
	for i := 0; i < sig.Params().Len(); i++ {
		if i > 0 {
			s += ","
		}
		pt := sig.Params().At(i).Type()
		if sig.Variadic() && i == sig.Params().Len()-1 {
			s += "..." + verifRenderType(pt.(*types.Slice).Elem(), pkg)
		} else {
			s += verifRenderType(pt, pkg)
		}
	}
	s += ")"
	if sig.Results().Len() > 0 {
		s += " ("
		for i := 0; i < sig.Results().Len(); i++ {
			if i > 0 {
				s += ","
			}
			s += verifRenderType(sig.Results().At(i).Type(), pkg)
		}
		s += ")"
	}
	return s
}

// verifLeaf picks a leaf type.
func verifLeaf(user, ext *types.Package) types.Type {
	switch verifChoice(4) {
	case 0:
		return types.Typ[types.Int]
	case 1:
		return types.Typ[types.String]
	case 2:
		return types.NewNamed(types.NewTypeName(token.NoPos, user, "Local", nil), types.NewStruct(nil, nil), nil)
	default:
		return types.NewNamed(types.NewTypeName(token.NoPos, ext, "Remote", nil), types.NewStruct(nil, nil), nil)
	}
}

// verifAnyType builds a type of the given depth, constructor chosen by fork.
func verifAnyType(depth int, user, ext *types.Package) types.Type {
	if depth == 0 {
		return verifLeaf(user, ext)
	}
	// unary constructors nest to the full depth; the children of functions,
	// structs and interfaces are leaves (keeps the number of shapes tractable)
	sub := func() types.Type { return verifAnyType(depth-1, user, ext) }
	leaf := func() types.Type { return verifAnyType(0, user, ext) }
	switch verifChoice(11) {
	case 10: // channel of channel, every pair of directions
		return types.NewChan(types.ChanDir(verifChoice(3)), types.NewChan(types.ChanDir(verifChoice(3)), verifLeaf(user, ext)))
	case 0:
		return verifLeaf(user, ext)
	case 1:
		return types.NewPointer(sub())
	case 2:
		return types.NewSlice(sub())
	case 3:
		return types.NewArray(sub(), int64(2+verifChoice(2)))
	case 4:
		return types.NewMap(verifLeaf(user, ext), sub())
	case 5:
		return types.NewChan(types.ChanDir(verifChoice(3)), sub())
	case 6: // function, possibly variadic, 0..1 results
		var params []*types.Var
		np := verifChoice(3)
		for i := 0; i < np; i++ {
			params = append(params, types.NewVar(token.NoPos, nil, "", leaf()))
		}
		variadic := false
		if np > 0 && verifChoice(2) == 1 {
			variadic = true
			last := params[np-1]
			params[np-1] = types.NewVar(token.NoPos, nil, "", types.NewSlice(last.Type()))
		}
		var results []*types.Var
		if verifChoice(2) == 1 {
			results = append(results, types.NewVar(token.NoPos, nil, "", verifLeaf(user, ext)))
		}
		return types.NewSignatureType(nil, nil, nil, types.NewTuple(params...), types.NewTuple(results...), variadic)
	case 7: // struct: named / embedded field, optional tag
		var fields []*types.Var
		var tags []string
		nf := 1 + verifChoice(2)
		for i := 0; i < nf; i++ {
			ft := leaf()
			embedded := false
			name := "F" + strconv.Itoa(i)
			if n, ok := ft.(*types.Named); ok && verifChoice(2) == 1 {
				embedded, name = true, n.Obj().Name()
			}
			for _, prev := range fields {
				verifAssume(prev.Name() != name) // a struct cannot have two fields of one name
			}
			fields = append(fields, types.NewField(token.NoPos, user, name, ft, embedded))
			if verifChoice(2) == 1 {
				tags = append(tags, `json:"x"`)
			} else {
				tags = append(tags, "")
			}
		}
		return types.NewStruct(fields, tags)
	case 8: // interface with 0..1 methods
		var ms []*types.Func
		if verifChoice(2) == 1 {
			sig := types.NewSignatureType(nil, nil, nil, types.NewTuple(types.NewVar(token.NoPos, nil, "", leaf())), types.NewTuple(), false)
			ms = append(ms, types.NewFunc(token.NoPos, user, "M", sig))
		}
		it := types.NewInterfaceType(ms, nil)
		it.Complete()
		return it
	default: // instance of a generic type Box[T]
		tp := types.NewTypeParam(types.NewTypeName(token.NoPos, user, "T", nil), types.NewInterfaceType(nil, nil))
		gen := types.NewNamed(types.NewTypeName(token.NoPos, user, "Box", nil), types.NewStruct(nil, nil), nil)
		gen.SetTypeParams([]*types.TypeParam{tp})
		inst, err := types.Instantiate(nil, gen, []types.Type{sub()}, false)
		if err != nil {
			verifAssume(false)
		}
		return inst
	}
}

// verifHarnessTypeExpr: every type of the given depth is spelled by the real
// createASTTypeExpr as the type it denotes.
func verifHarnessTypeExpr(depth int) {
	user := types.NewPackage("example.com/u", "u")
	ext := types.NewPackage("example.com/ext/remote", "remote")
	t := verifAnyType(depth, user, ext)
	imports := map[string]*Import{}
	expr, err := createASTTypeExpr("example.com/u", t, NewVarPool(), imports)
	if err != nil {
		verifAssert(false, "type-refused")
		return
	}
	got := verifRenderAST(expr)
	want := verifRenderType(t, "example.com/u")
	verifLog("type", want)
	verifLog("spelled", got)
	verifAssert(got == want, "type-spelling")
	verifReach("end")
}

// verifQualifiers collects the package qualifiers an AST type expression uses.
func verifQualifiers(e ast.Expr, out map[string]bool) {
	ast.Inspect(e, func(n ast.Node) bool {
		if s, ok := n.(*ast.SelectorExpr); ok {
			if id, ok := s.X.(*ast.Ident); ok {
				out[id.Name] = true
			}
		}
		return true
	})
}

// verifHarnessTypeImports: every package qualifier that the spelled type uses is the
// name of an import recorded in the parameter's ReferencedImports (the generator marks
// exactly those as used, so a qualifier outside the set is an undefined identifier in
// the output), and every recorded import is one the spelling uses (otherwise
// "imported and not used"). Both orders in which the generator meets a type are run:
// imports collected first (provider results, Build) and spelled first (injector arguments:
// autoAddMissingDependencies spells the type in NewGraph, Build collects later); the
// package's own name may already be taken in the file (a user identifier "remote").
func verifHarnessTypeImports(depth int) {
	user := types.NewPackage("example.com/u", "u")
	ext := types.NewPackage("example.com/ext/remote", "remote")
	t := verifAnyType(depth, user, ext)
	imports := map[string]*Import{}
	vp := NewVarPool()
	taken := verifChoice(2) == 1
	if taken {
		vp.Reserve("remote")
		verifLog("taken", "remote")
	}
	var p *InjectorParam
	var expr ast.Expr
	var err error
	if verifChoice(2) == 0 {
		verifLog("order", "collect-then-spell")
		p = NewInjectorParamWithImports([]types.Type{t}, true, "example.com/u", imports, vp)
		expr, err = createASTTypeExpr("example.com/u", t, vp, imports)
	} else {
		verifLog("order", "spell-then-collect")
		expr, err = createASTTypeExpr("example.com/u", t, vp, imports)
		p = NewInjectorParamWithImports([]types.Type{t}, true, "example.com/u", imports, vp)
	}
	if err != nil {
		verifAssert(false, "type-refused")
		return
	}
	verifLog("type", verifRenderType(t, "example.com/u"))
	quals := map[string]bool{}
	verifQualifiers(expr, quals)
	names := map[string]bool{}
	for _, imp := range p.ReferencedImports {
		names[imp.Name] = true
	}
	for q := range quals {
		verifAssert(names[q], "qualifier-not-in-referenced-imports")
		if taken {
			verifAssert(q != "remote", "qualifier-is-a-name-already-in-use")
		}
	}
	for n := range names {
		verifAssert(quals[n], "referenced-import-not-used-by-spelling")
	}
	verifReach("end")
}
