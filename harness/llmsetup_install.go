package llmsetup

// verifHarnessInstall drives the real Install for agent i of the registry.
func verifHarnessInstall(i int, customPath string, user bool) (string, error) {
	return Install(ListAgents()[i], customPath, user)
}

// verifAgentInfo exposes what the obligations need to know about agent i.
func verifAgentInfo(i int) (name, skillsDir, srcDir, projectSub, userSub string) {
	a := ListAgents()[i]
	return a.Name(), a.SkillsDirName(), a.SkillsSrcDir(), a.ProjectSubPath(), a.UserSubPath()
}

func verifNumAgents() int { return len(ListAgents()) }

func verifAgent(i int) Agent { return ListAgents()[i] }
