package kessoku

import (
	"go/token"
	"go/types"
)

// verifMakeType returns a type whose generator base name is base (base is in
// the image of the base-name function: first byte not upper-case). Natively a
// real named type; symbolically an opaque token for which the interpreter
// answers (*VarPool).getBaseName with base itself.
func verifMakeType(base string) types.Type {
	return types.NewNamed(types.NewTypeName(token.NoPos, nil, base, nil), types.NewStruct(nil, nil), nil)
}

// verifHarnessVarPool drives the real allocator through a history of k
// operations with symbolic names and asserts freshness of every output (C12),
// optionally also against the identifiers the generator hard-codes (C04-A).
func verifHarnessVarPool(k int, maxLen int, hard []string) {
	p := NewVarPool()
	var outs, users []string
	var usersBefore []int // number of user identifiers registered before outs[i]
	for i := 0; i < k; i++ {
		switch verifChoice(3) {
		case 0: // parser.go: reservation of a package-level identifier
			u := verifNondetString()
			verifAssume(verifIsIdent(u, false, maxLen))
			verifAssume(!verifIsKeyword(u))
			p.Reserve(u)
			users = append(users, u)
		case 1: // variable / parameter / import alias / error variable
			b := verifNondetString()
			verifAssume(verifIsIdent(b, true, maxLen))
			verifAssume(b != "_")
			outs = append(outs, p.GetName(b))
			usersBefore = append(usersBefore, len(users))
		case 2: // done-channel of a value whose type has base name b
			b := verifNondetString()
			verifAssume(verifIsIdent(b, true, maxLen))
			verifAssume(b != "_")
			outs = append(outs, p.GetChannel(verifMakeType(b)))
			usersBefore = append(usersBefore, len(users))
		}
	}
	for i := range outs {
		verifAssert(!verifIsReserved(outs[i]), "reserved")
		// A user identifier registered after the output either belongs to
		// another package of the same invocation (no shared scope) or was
		// also registered before it; only earlier registrations count.
		for _, u := range users[:usersBefore[i]] {
			verifAssert(outs[i] != u, "user-name")
		}
		for j := 0; j < i; j++ {
			verifAssert(outs[i] != outs[j], "dup")
		}
		for _, h := range hard {
			verifAssert(outs[i] != h, "hardcoded")
		}
	}
	verifReach("end")
}

// verifHarnessParamNames: the same obligations with names requested the way the generator
// requests them, through InjectorParam.Name and InjectorParam.ChannelName (in either order),
// so that whatever allocator entry points those methods use are covered.
func verifHarnessParamNames(k int, maxLen int, hard []string) {
	p := NewVarPool()
	var outs, users []string
	var usersBefore []int
	for i := 0; i < k; i++ {
		switch verifChoice(3) {
		case 0:
			u := verifNondetString()
			verifAssume(verifIsIdent(u, false, maxLen))
			verifAssume(!verifIsKeyword(u))
			p.Reserve(u)
			users = append(users, u)
		case 1: // a value without done-channel
			b := verifNondetString()
			verifAssume(verifIsIdent(b, true, maxLen))
			verifAssume(b != "_")
			prm := NewInjectorParam([]types.Type{verifMakeType(b)}, false)
			prm.Ref(false)
			outs = append(outs, prm.Name(p))
			usersBefore = append(usersBefore, len(users))
		case 2: // a value awaited from another goroutine: variable and done-channel
			b := verifNondetString()
			verifAssume(verifIsIdent(b, true, maxLen))
			verifAssume(b != "_")
			prm := NewInjectorParam([]types.Type{verifMakeType(b)}, false)
			prm.Ref(true)
			if verifChoice(2) == 0 {
				outs = append(outs, prm.Name(p), prm.ChannelName(p))
			} else {
				outs = append(outs, prm.ChannelName(p), prm.Name(p))
			}
			usersBefore = append(usersBefore, len(users), len(users))
		}
	}
	for i := range outs {
		verifAssert(!verifIsReserved(outs[i]), "reserved")
		for _, u := range users[:usersBefore[i]] {
			verifAssert(outs[i] != u, "user-name")
		}
		for j := 0; j < i; j++ {
			verifAssert(outs[i] != outs[j], "dup")
		}
		for _, h := range hard {
			verifAssert(outs[i] != h, "hardcoded")
		}
	}
	verifReach("end")
}

func verifIsKeyword(s string) bool {
	r := false
	for _, id := range goReservedKeywords {
		r = verifOr(r, s == id)
	}
	return r
}

func verifIsReserved(s string) bool {
	r := false
	for _, id := range goPredeclaredIdentifiers {
		r = verifOr(r, s == id)
	}
	for _, id := range goReservedKeywords {
		r = verifOr(r, s == id)
	}
	return r
}

// verifHarnessVarPoolTwoRuns: C11 history dimension. The same request history
// is served by two allocators; the second one has additionally pre-registered
// the injector names a previous run's output file declares.
func verifHarnessVarPoolTwoRuns(k int, maxLen int) {
	p1 := NewVarPool()
	p2 := NewVarPool()
	inj := verifNondetString() // injector name: any identifier
	verifAssume(verifIsIdent(inj, false, maxLen))
	verifAssume(!verifIsKeyword(inj))
	// ParseFile reserves the injector names of the file it is about to generate
	// (first and second run alike); in the second run the previous *_band.go
	// already declares the function, so the name is reserved once more.
	p1.Reserve(inj)
	p2.Reserve(inj)
	p2.Reserve(inj)
	for i := 0; i < k; i++ {
		b := verifNondetString()
		verifAssume(verifIsIdent(b, true, maxLen))
		verifAssume(b != "_")
		switch verifChoice(2) {
		case 0:
			verifAssert(p1.GetName(b) == p2.GetName(b), "second-run-differs")
		case 1:
			t := verifMakeType(b)
			verifAssert(p1.GetChannel(t) == p2.GetChannel(t), "second-run-differs")
		}
	}
	verifReach("end")
}

// verifHarnessVarPoolConcrete runs a concrete history; the interpreter and the
// native build must agree on every output (translator validation).
func verifHarnessVarPoolConcrete(ops []int, names []string) []string {
	p := NewVarPool()
	var outs []string
	for i, op := range ops {
		switch op {
		case 0:
			p.Reserve(names[i])
			outs = append(outs, "-")
		case 1:
			outs = append(outs, p.GetName(names[i]))
		default:
			outs = append(outs, p.GetChannel(verifMakeType(names[i])))
		}
	}
	return outs
}
