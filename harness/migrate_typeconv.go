package migrate

import goast "go/ast"

// verifHarnessAddImport: the real TypeConverter.AddImport under a history of k
// calls with symbolic paths and desired names: the same path keeps its alias,
// distinct paths get distinct aliases, and the alias recorded is the one returned.
func verifHarnessAddImport(k int, maxLen int) {
	tc := NewTypeConverter(nil)
	paths := make([]string, k)
	got := make([]string, k)
	for i := 0; i < k; i++ {
		paths[i] = verifNondetString()
		verifAssume(verifIsIdent(paths[i], true, maxLen))
		name := verifNondetString()
		verifAssume(verifIsIdent(name, true, maxLen))
		got[i] = tc.AddImport(paths[i], name)
	}
	for i := 0; i < k; i++ {
		verifAssert(tc.imports[paths[i]] == got[i] || verifLaterSamePath(paths, i), "alias-recorded")
		for j := 0; j < i; j++ {
			verifAssert(verifOr(paths[i] != paths[j], got[i] == got[j]), "same-path-same-alias")
			verifAssert(verifOr(paths[i] == paths[j], got[i] != got[j]), "distinct-paths-distinct-aliases")
		}
	}
	verifReach("end")
}

// verifLaterSamePath is only a placeholder for the (impossible) case that a
// later call re-registered the path under another alias: it is false, so the
// assertion reduces to "the recorded alias is the returned one".
func verifLaterSamePath(paths []string, i int) bool { return false }

// verifHarnessImportsOrder: the import block must not depend on the iteration
// order of the converter's import table.
func verifHarnessImportsOrder(n int) {
	all := []string{"b/x", "a", "c/y/z", "b"}
	run := func() []string {
		tc := NewTypeConverter(nil)
		for _, p := range all[:n] {
			tc.AddImport(p, lastPathElement(p))
		}
		verifMapOrderFree(true)
		specs := tc.Imports()
		verifMapOrderFree(false)
		decl := NewWriter(tc).buildImportDecl(specs)
		var out []string
		for _, s := range decl.Specs {
			out = append(out, s.(*astImportSpec).Path.Value)
		}
		return out
	}
	a := run()
	b := run()
	verifAssert(len(a) == len(b), "import-count")
	for i := range a {
		if i < len(b) {
			verifAssert(a[i] == b[i], "import-order-depends-on-map-order")
		}
	}
	verifReach("end")
}

// astImportSpec avoids importing go/ast twice in harness files.
type astImportSpec = goast.ImportSpec

// verifHarnessMigrateFiles drives the real Migrator.MigrateFiles with the
// loader, the pattern extraction, the transformation, the printer and
// os.WriteFile stubbed.
func verifHarnessMigrateFiles() error {
	return NewMigrator().MigrateFiles([]string{"./..."}, "kessoku.go")
}
