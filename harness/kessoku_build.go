package kessoku

import (
	"go/ast"
	"go/token"
	"go/types"
)

// verifNamed builds a real named type pkg.Name (pointer to it if ptr).
func verifNamed(pkg *types.Package, name string, ptr bool) types.Type {
	var t types.Type = types.NewNamed(types.NewTypeName(token.NoPos, pkg, name, nil), types.NewStruct(nil, nil), nil)
	if ptr {
		t = types.NewPointer(t)
	}
	return t
}

func verifTypeExprString(e ast.Expr) string {
	switch x := e.(type) {
	case *ast.Ident:
		return x.Name
	case *ast.StarExpr:
		return "*" + verifTypeExprString(x.X)
	case *ast.SelectorExpr:
		return verifTypeExprString(x.X) + "." + x.Sel.Name
	}
	return "?"
}

// verifHarnessBuild: the real NewGraph + Graph.Build + generateInjectorDecl on
// every declaration with np providers over the types T0.. (pointer types of
// the user's package), each provider Async/fallible by choice, requirements any
// subset of {other T's, unsupplied A0, unsupplied A1, context.Context}; the
// signature of the generated declaration must follow the reference rule.
func verifHarnessBuild(np int, nx int) {
	user := types.NewPackage("example.com/u", "u")
	ctxPkg := types.NewPackage("context", "context")
	ctxT := types.NewNamed(types.NewTypeName(token.NoPos, ctxPkg, "Context", nil), types.NewInterfaceType(nil, nil), nil)
	names := []string{"T0", "T1", "T2", "T3"}
	ts := make([]types.Type, np)
	for i := range ts {
		ts[i] = verifNamed(user, names[i], true)
	}
	extra := []types.Type{ctxT, verifNamed(user, "A0", true), verifNamed(user, "A1", true)}[:nx]
	extraName := []string{"context.Context", "*A0", "*A1"}[:nx]
	type prov struct {
		async, fallible bool
		reqT            []int // indices of T's
		reqX            []int // indices into extra
	}
	ps := make([]prov, np)
	build := &BuildDirective{InjectorName: "InitX", Return: &Return{Type: ts[0], ASTTypeExpr: &ast.StarExpr{X: ast.NewIdent("T0")}}}
	for i := 0; i < np; i++ {
		p := prov{async: verifChoice(2) == 1, fallible: verifChoice(2) == 1}
		spec := &ProviderSpec{Type: ProviderTypeFunction, Provides: [][]types.Type{{ts[i]}}, IsAsync: p.async, IsReturnError: p.fallible, ASTExpr: ast.NewIdent("prov")}
		// requirements: later T's only (acyclic), in a chosen order relative to extras
		for j := i + 1; j < np; j++ {
			if verifChoice(2) == 1 {
				p.reqT = append(p.reqT, j)
			}
		}
		for x := range extra {
			if verifChoice(2) == 1 {
				p.reqX = append(p.reqX, x)
			}
		}
		extrasFirst := verifChoice(2) == 1
		if extrasFirst {
			for _, x := range p.reqX {
				spec.Requires = append(spec.Requires, extra[x])
			}
		}
		for _, j := range p.reqT {
			spec.Requires = append(spec.Requires, ts[j])
		}
		if !extrasFirst {
			for _, x := range p.reqX {
				spec.Requires = append(spec.Requires, extra[x])
			}
		}
		ps[i] = p
		build.Providers = append(build.Providers, spec)
	}
	// reference: needed providers = reachable from T0
	needed := make([]bool, np)
	var visit func(i int)
	visit = func(i int) {
		if needed[i] {
			return
		}
		needed[i] = true
		for _, j := range ps[i].reqT {
			visit(j)
		}
	}
	visit(0)
	wantArg := map[string]bool{}
	anyAsync, anyErr := false, false
	for i, p := range ps {
		if !needed[i] {
			continue
		}
		anyAsync = anyAsync || p.async
		anyErr = anyErr || p.fallible
		for _, x := range p.reqX {
			wantArg[extraName[x]] = true
		}
	}
	if anyAsync {
		wantArg["context.Context"] = true
	}
	md := &MetaData{Imports: map[string]*Import{}, Package: Package{Name: "u", Path: "example.com/u"}}
	vp := NewVarPool()
	g, err := NewGraph(md, build, vp)
	verifAssert(err == nil, "accepted")
	if err != nil {
		return
	}
	inj, err := g.Build(md, vp)
	verifAssert(err == nil, "built")
	if err != nil {
		return
	}
	decl, err := generateInjectorDecl(md, inj, vp)
	verifAssert(err == nil, "generated")
	if err != nil {
		return
	}
	fd := decl.(*ast.FuncDecl)
	verifAssert(fd.Name.Name == "InitX", "name")
	got := map[string]int{}
	first := ""
	if fd.Type.Params != nil {
		for k, f := range fd.Type.Params.List {
			s := verifTypeExprString(f.Type)
			got[s] += len(f.Names)
			if k == 0 {
				first = s
			}
		}
	}
	for _, n := range extraName {
		want := 0
		if wantArg[n] {
			want = 1
		}
		verifAssert(got[n] == want, "param-"+n)
	}
	total := 0
	for _, c := range got {
		total += c
	}
	verifAssert(total == len(wantArg), "param-count")
	if anyAsync {
		verifAssert(first == "context.Context", "ctx-first")
	}
	nres := 0
	if fd.Type.Results != nil {
		nres = len(fd.Type.Results.List)
	}
	if anyErr {
		verifAssert(nres == 2 && verifTypeExprString(fd.Type.Results.List[1].Type) == "error", "error-result")
	} else {
		verifAssert(nres == 1, "no-error-result")
	}
	verifAssert(nres >= 1 && verifTypeExprString(fd.Type.Results.List[0].Type) == "*T0", "result-type")
	verifReach("end")
}
