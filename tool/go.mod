module kverif

go 1.24.0

require golang.org/x/tools v0.42.0

require (
	golang.org/x/mod v0.33.0 // indirect
	golang.org/x/sync v0.19.0 // indirect
)
