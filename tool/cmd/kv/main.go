package main

import (
	"flag"
	"fmt"
	"os"
	"os/exec"
	"os/signal"
	"strconv"
	"syscall"
	"time"

	"kverif/internal/checks"
	"kverif/internal/load"
)

func usage() {
	fmt.Fprintln(os.Stderr, "usage: kv check <ID> [--tier quick|thorough] | kv replay <path> | kv list")
	os.Exit(2)
}

func main() {
	sigs := make(chan os.Signal, 1)
	signal.Notify(sigs, syscall.SIGINT, syscall.SIGTERM)
	go func() {
		<-sigs
		load.CleanupAll()
		_ = exec.Command("pkill", "-P", fmt.Sprint(os.Getpid())).Run()
		os.Exit(130)
	}()
	if len(os.Args) < 2 {
		usage()
	}
	switch os.Args[1] {
	case "list":
		for id := range checks.Registry {
			fmt.Println(id)
		}
	case "check":
		if len(os.Args) < 3 {
			usage()
		}
		id := os.Args[2]
		go load.TrimGoCache(12<<30, 2*time.Hour)
		fs := flag.NewFlagSet("check", flag.ExitOnError)
		tier := fs.String("tier", "", "quick or thorough")
		_ = fs.Parse(os.Args[3:])
		if *tier == "" {
			*tier = os.Getenv("VERIF_TIER")
		}
		if *tier == "" {
			*tier = "quick"
		}
		seed, _ := strconv.Atoi(os.Getenv("VERIF_SEED"))
		fn := checks.Registry[id]
		if fn == nil {
			fmt.Fprintln(os.Stderr, "no check for", id)
			os.Exit(2)
		}
		c := checks.NewCtx(id, *tier, seed)
		var err error
		func() {
			defer func() {
				if r := recover(); r != nil {
					err = fmt.Errorf("panic in check: %v", r)
				}
			}()
			err = fn(c)
		}()
		code := c.Finish(err)
		load.CleanupAll()
		os.Exit(code)
	case "replay":
		if len(os.Args) < 3 {
			usage()
		}
		if err := checks.Replay(os.Args[2]); err != nil {
			fmt.Fprintln(os.Stderr, err)
			os.Exit(1)
		}
	default:
		usage()
	}
}
