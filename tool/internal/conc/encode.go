// Package conc turns the event structure of one generated injector into a
// partial-order SMT encoding (integer clock per event, occurrence bit per
// event, provider failure bits, select choices, caller cancellation instant)
// and discharges the schedule-quantified obligations of C01–C08 on it.
package conc

import (
	"fmt"
	"sort"
	"strings"

	"kverif/internal/smt"
	"kverif/internal/symx"
)

type Node struct {
	Ev       symx.CEvent
	Parent   *Node
	Guard    string // condition on the parent's outcome under which this node follows
	Children []*Node
	X, C     string
	Thread   int
	// variants of decision events keep the per-outcome data of the paths
	FailSeen, OkSeen bool
}

type Enc struct {
	P       *symx.CProgram
	Nodes   []*Node
	ByKey   map[string]*Node
	Roots   map[int][]*Node // thread -> root nodes (one, unless the first event differs per path)
	Decls   []string
	Phi     []string
	Psi     []string
	NoFail  []string // assertions: no provider fails
	Fails   []*Node  // exit nodes of fallible calls
	callIDs map[string]int
	Returns []*Node // main-thread return nodes
	Rets    map[int][]*Node
	Spawns  map[int][]*Node
	Waits   []*Node
	Closes  map[string][]*Node
	Reads   map[string][]*Node
	Writes  map[string][]*Node
	Enters  []*Node
	Exits   map[string]*Node // callKey -> exit node
	Threads int
}

func isBlocking(k string) bool { return k == "recv" || k == "sel" || k == "wait" }

// IsBlocking: receives, selects and eg.Wait always block; eg.Go blocks as well once the
// group has a limit (errgroup.SetLimit): it waits for a slot that a returning goroutine frees.
func (e *Enc) IsBlocking(n *Node) bool {
	return isBlocking(n.Ev.Kind) || (n.Ev.Kind == "spawn" && e.P.LimitSet)
}

// activeCount is the number of goroutines other than g that have been started and have not
// returned: before clock t (final=false) or in the final state (final=true).
func (e *Enc) activeCount(except int, t string, final bool) string {
	var ts []string
	for g := 1; g < e.Threads; g++ {
		if g == except {
			continue
		}
		var act string
		if final {
			act = fmt.Sprintf("(and %s (not %s))", e.Spawned(g), e.Returned(g))
		} else {
			act = fmt.Sprintf("(and %s (not %s))", e.spawnedBefore(g, t), e.retBefore(g, t))
		}
		ts = append(ts, "(ite "+act+" 1 0)")
	}
	switch len(ts) {
	case 0:
		return "0"
	case 1:
		return ts[0]
	}
	return "(+ " + strings.Join(ts, " ") + ")"
}

func Build(p *symx.CProgram) (*Enc, error) {
	e := &Enc{P: p, ByKey: map[string]*Node{}, Roots: map[int][]*Node{}, callIDs: map[string]int{},
		Rets: map[int][]*Node{}, Spawns: map[int][]*Node{}, Closes: map[string][]*Node{}, Reads: map[string][]*Node{}, Writes: map[string][]*Node{}, Exits: map[string]*Node{}}
	if len(p.Unsupported) > 0 {
		return nil, fmt.Errorf("unsupported: %s", strings.Join(p.Unsupported, "; "))
	}
	for _, th := range p.Threads {
		if th.ID+1 > e.Threads {
			e.Threads = th.ID + 1
		}
		for _, path := range th.Paths {
			var prev *Node
			var prevEv *symx.CEvent
			for i := range path.Events {
				ev := path.Events[i]
				n, ok := e.ByKey[ev.Key]
				if !ok {
					n = &Node{Ev: ev, X: "x_" + ev.Key, C: "c_" + ev.Key, Thread: th.ID, Parent: prev, Guard: "true"}
					if prev != nil {
						n.Guard = guardOf(prevEv)
						prev.Children = append(prev.Children, n)
					} else {
						e.Roots[th.ID] = append(e.Roots[th.ID], n)
					}
					e.ByKey[ev.Key] = n
					e.Nodes = append(e.Nodes, n)
					e.index(n)
				} else if n.Ev.Kind != ev.Kind {
					return nil, fmt.Errorf("event key %s denotes %s and %s", ev.Key, n.Ev.Kind, ev.Kind)
				}
				if ev.Kind == "exit" && ev.Fallible {
					if ev.Failed {
						n.FailSeen = true
					} else {
						n.OkSeen = true
					}
				}
				prev = n
				prevEv = &path.Events[i]
			}
		}
	}
	e.axioms()
	return e, nil
}

func guardOf(prev *symx.CEvent) string {
	if !prev.Decision {
		return "true"
	}
	switch prev.Kind {
	case "exit":
		if prev.Failed {
			return "fail_" + prev.CallKey
		}
		return "(not fail_" + prev.CallKey + ")"
	case "sel", "probe":
		return fmt.Sprintf("(= choice_%s %d)", prev.Key, prev.Choice)
	case "wait":
		if prev.Choice == 0 {
			return "wnil_" + prev.Key
		}
		return "(not wnil_" + prev.Key + ")"
	}
	return "true"
}

func (e *Enc) index(n *Node) {
	switch n.Ev.Kind {
	case "return":
		e.Returns = append(e.Returns, n)
	case "ret":
		e.Rets[n.Thread] = append(e.Rets[n.Thread], n)
	case "spawn":
		e.Spawns[n.Ev.Spawned] = append(e.Spawns[n.Ev.Spawned], n)
	case "wait":
		e.Waits = append(e.Waits, n)
	case "close":
		e.Closes[n.Ev.Chan.ID] = append(e.Closes[n.Ev.Chan.ID], n)
	case "rd":
		e.Reads[n.Ev.Cell] = append(e.Reads[n.Ev.Cell], n)
	case "wr":
		e.Writes[n.Ev.Cell] = append(e.Writes[n.Ev.Cell], n)
	case "enter":
		e.Enters = append(e.Enters, n)
		e.callIDs[n.Ev.Key] = len(e.callIDs) + 1
	case "exit":
		e.Exits[n.Ev.CallKey] = n
		if n.Ev.Fallible {
			e.Fails = append(e.Fails, n)
		}
	}
}

func or(ts []string) string  { return smt.Or(ts...) }
func and(ts []string) string { return smt.And(ts...) }

// before: node occurred with clock below t.
func before(n *Node, t string) string { return "(and " + n.X + " (< " + n.C + " " + t + "))" }

func (e *Enc) closedBefore(ch symx.ChanRef, t string) string {
	if ch.Kind == "done" {
		return e.doneBefore(ch.ID, t)
	}
	var ts []string
	for _, k := range e.Closes[ch.ID] {
		ts = append(ts, before(k, t))
	}
	return or(ts)
}

func (e *Enc) failingRets() []*Node {
	var out []*Node
	for g := 1; g < e.Threads; g++ {
		for _, r := range e.Rets[g] {
			if r.Ev.Err != "Nil" {
				out = append(out, r)
			}
		}
	}
	return out
}

func (e *Enc) doneBefore(ctx string, t string) string {
	parent := "(and cancelled (< T_cancel " + t + "))"
	if ctx == "parent" {
		return parent
	}
	ts := []string{parent}
	for _, r := range e.failingRets() {
		ts = append(ts, before(r, t))
	}
	for _, w := range e.Waits {
		ts = append(ts, before(w, t))
	}
	return or(ts)
}

func (e *Enc) doneFinal(ctx string) string {
	if ctx == "parent" {
		return "cancelled"
	}
	ts := []string{"cancelled"}
	for _, r := range e.failingRets() {
		ts = append(ts, r.X)
	}
	for _, w := range e.Waits {
		ts = append(ts, w.X)
	}
	return or(ts)
}

func (e *Enc) closedFinal(ch symx.ChanRef) string {
	if ch.Kind == "done" {
		return e.doneFinal(ch.ID)
	}
	var ts []string
	for _, k := range e.Closes[ch.ID] {
		ts = append(ts, k.X)
	}
	return or(ts)
}

func (e *Enc) Spawned(g int) string {
	var ts []string
	for _, s := range e.Spawns[g] {
		ts = append(ts, s.X)
	}
	return or(ts)
}

func (e *Enc) Returned(g int) string {
	var ts []string
	if g == 0 {
		for _, r := range e.Returns {
			ts = append(ts, r.X)
		}
	} else {
		for _, r := range e.Rets[g] {
			ts = append(ts, r.X)
		}
	}
	return or(ts)
}

func (e *Enc) spawnedBefore(g int, t string) string {
	var ts []string
	for _, s := range e.Spawns[g] {
		ts = append(ts, before(s, t))
	}
	return or(ts)
}

func (e *Enc) retBefore(g int, t string) string {
	var ts []string
	for _, r := range e.Rets[g] {
		ts = append(ts, before(r, t))
	}
	return or(ts)
}

func (e *Enc) axioms() {
	d := func(s string, a ...any) { e.Decls = append(e.Decls, fmt.Sprintf(s, a...)) }
	phi := func(s string, a ...any) { e.Phi = append(e.Phi, fmt.Sprintf(s, a...)) }
	psi := func(s string, a ...any) { e.Psi = append(e.Psi, fmt.Sprintf(s, a...)) }

	d("(declare-sort V 0)")
	d("(declare-datatypes ((Err 0)) (((Nil) (CtxErr) (Prov (pid Int)))))")
	d("(declare-const ZEROV V)")
	d("(declare-const in_ctx V)")
	d("(declare-fun litS (String) V)")
	d("(declare-fun litI (Int) V)")
	d("(declare-fun litB (Bool) V)")
	d("(declare-const cancelled Bool)")
	d("(declare-const T_cancel Int)")
	seen := map[string]bool{"in_ctx": true}
	for _, t := range e.P.ParamTerms {
		if !seen[t] {
			seen[t] = true
			d("(declare-const %s V)", t)
		}
	}
	var provs []string
	for s := range e.P.Provs {
		provs = append(provs, s)
	}
	sort.Strings(provs)
	outArity := map[string]int{}
	for _, n := range e.Nodes {
		if n.Ev.Kind == "exit" {
			for i := range n.Ev.Outs {
				f := fmt.Sprintf("out_%s_%d", n.Ev.Prov, i)
				outArity[f] = e.P.Provs[n.Ev.Prov]
			}
		}
	}
	for _, x := range e.P.ExtraOuts {
		for i := 0; i < x.Results; i++ {
			f := fmt.Sprintf("out_%s_%d", x.Prov, i)
			if _, ok := outArity[f]; !ok {
				outArity[f] = x.Arity
			}
		}
	}
	var outs []string
	for f := range outArity {
		outs = append(outs, f)
	}
	sort.Strings(outs)
	for _, f := range outs {
		if outArity[f] == 0 {
			d("(declare-const %s V)", f)
		} else {
			d("(declare-fun %s (%s) V)", f, strings.TrimSpace(strings.Repeat("V ", outArity[f])))
		}
	}
	var flds []string
	for f := range e.P.Flds {
		flds = append(flds, f)
	}
	sort.Strings(flds)
	for _, f := range flds {
		d("(declare-fun %s (V) V)", f)
	}
	for _, n := range e.Nodes {
		d("(declare-const %s Bool)", n.X)
		d("(declare-const %s Int)", n.C)
		phi("(> %s 0)", n.C)
		switch n.Ev.Kind {
		case "enter":
			d("(define-fun %s () Int %d)", n.Ev.Key, e.callIDs[n.Ev.Key])
		case "exit":
			if n.Ev.Fallible {
				d("(declare-const fail_%s Bool)", n.Ev.CallKey)
				e.NoFail = append(e.NoFail, "(not fail_"+n.Ev.CallKey+")")
			}
		case "sel", "probe":
			d("(declare-const choice_%s Int)", n.Ev.Key)
		case "wait":
			d("(declare-const wnil_%s Bool)", n.Ev.Key)
			d("(declare-const %s Err)", n.Ev.Err)
		case "rd":
			d("(declare-const %s V)", n.Ev.Val)
		}
	}
	// A1: program order / thread start
	for _, n := range e.Nodes {
		if n.Parent != nil {
			phi("(=> %s (and %s (< %s %s) %s))", n.X, n.Parent.X, n.Parent.C, n.C, n.Guard)
		} else if n.Thread != 0 {
			phi("(=> %s %s)", n.X, e.spawnedBefore(n.Thread, n.C))
		}
	}
	// siblings under the same guard are alternatives only if guards differ; a
	// node has at most one child per guard by construction of the keys.
	for _, n := range e.Nodes {
		switch n.Ev.Kind {
		case "recv":
			phi("(=> %s %s)", n.X, e.closedBefore(n.Ev.Chan, n.C))
		case "sel":
			var alts []string
			for i, ch := range n.Ev.Chans {
				alts = append(alts, fmt.Sprintf("(and (= choice_%s %d) %s)", n.Ev.Key, i, e.closedBefore(ch, n.C)))
			}
			phi("(=> %s %s)", n.X, or(alts))
		case "probe":
			// ctx.Err(): non-nil (choice 1) exactly if the context is done at that instant
			done := e.closedBefore(n.Ev.Chans[0], n.C)
			phi("(=> %s (and (=> (= choice_%s 1) %s) (=> (= choice_%s 0) (not %s)) (or (= choice_%s 0) (= choice_%s 1))))", n.X, n.Ev.Key, done, n.Ev.Key, done, n.Ev.Key, n.Ev.Key)
		case "spawn":
			if e.P.LimitSet {
				phi("(=> %s (< %s %d))", n.X, e.activeCount(n.Ev.Spawned, n.C, false), e.P.Limit)
			}
		case "wait":
			var all []string
			for g := 1; g < e.Threads; g++ {
				all = append(all, fmt.Sprintf("(=> %s %s)", e.spawnedBefore(g, n.C), e.retBefore(g, n.C)))
			}
			phi("(=> %s %s)", n.X, and(all))
			fr := e.failingRets()
			var anyFail []string
			for _, r := range fr {
				anyFail = append(anyFail, before(r, n.C))
			}
			phi("(=> %s (= wnil_%s (not %s)))", n.X, n.Ev.Key, or(anyFail))
			phi("(=> (and %s wnil_%s) (= %s Nil))", n.X, n.Ev.Key, n.Ev.Err)
			var firsts []string
			for _, r := range fr {
				var le []string
				for _, r2 := range fr {
					if r2 != r {
						le = append(le, fmt.Sprintf("(=> %s (<= %s %s))", before(r2, n.C), r.C, r2.C))
					}
				}
				firsts = append(firsts, fmt.Sprintf("(and %s (= %s %s) %s)", before(r, n.C), n.Ev.Err, r.Ev.Err, and(le)))
			}
			phi("(=> (and %s (not wnil_%s)) %s)", n.X, n.Ev.Key, or(firsts))
		}
	}
	// A6: memory
	cells := append([]string{}, e.P.Cells...)
	for _, c := range cells {
		ws := e.Writes[c]
		for _, r := range e.Reads[c] {
			var none []string
			for _, w := range ws {
				none = append(none, "(not "+before(w, r.C)+")")
				var later []string
				for _, w2 := range ws {
					if w2 != w {
						later = append(later, fmt.Sprintf("(not (and %s (< %s %s) (< %s %s)))", w2.X, w.C, w2.C, w2.C, r.C))
					}
				}
				phi("(=> (and %s %s %s) (= %s %s))", r.X, before(w, r.C), and(later), r.Ev.Val, w.Ev.Val)
			}
			phi("(=> (and %s %s) (= %s ZEROV))", r.X, and(none), r.Ev.Val)
			for _, w := range ws {
				phi("(=> (and %s %s) (distinct %s %s))", r.X, w.X, r.C, w.C)
			}
		}
		for i, w := range ws {
			for _, w2 := range ws[i+1:] {
				phi("(=> (and %s %s) (distinct %s %s))", w.X, w2.X, w.C, w2.C)
			}
		}
	}
	// Psi: final-state axioms
	for _, n := range e.Nodes {
		var pre string
		switch {
		case n.Parent != nil:
			pre = "(and " + n.Parent.X + " " + n.Guard + ")"
		case n.Thread == 0:
			pre = "true"
		default:
			pre = e.Spawned(n.Thread)
		}
		if !e.IsBlocking(n) {
			psi("(=> %s %s)", pre, n.X)
			continue
		}
		var en string
		switch n.Ev.Kind {
		case "spawn":
			en = fmt.Sprintf("(< %s %d)", e.activeCount(n.Ev.Spawned, "", true), e.P.Limit)
		case "recv":
			en = e.closedFinal(n.Ev.Chan)
		case "sel":
			var ts []string
			for _, ch := range n.Ev.Chans {
				ts = append(ts, e.closedFinal(ch))
			}
			en = or(ts)
		case "wait":
			var ts []string
			for g := 1; g < e.Threads; g++ {
				ts = append(ts, fmt.Sprintf("(=> %s %s)", e.Spawned(g), e.Returned(g)))
			}
			en = and(ts)
		}
		psi("(=> (and %s (not %s)) (not %s))", pre, n.X, en)
	}
}

// DeterministicSelects says that every executed select had exactly one enabled
// branch when it completed: the runtime has no choice to make, so a replay of
// such a model does not depend on the runtime's random pick among ready cases.
func (e *Enc) DeterministicSelects() string {
	var ts []string
	for _, n := range e.Nodes {
		if n.Ev.Kind != "sel" {
			continue
		}
		for i, ch := range n.Ev.Chans {
			ts = append(ts, fmt.Sprintf("(=> %s (or (= choice_%s %d) (not %s)))", n.X, n.Ev.Key, i, e.closedBefore(ch, n.C)))
		}
	}
	return and(ts)
}

// Parked: the thread of blocking node n stands before n (its predecessor
// occurred under the right outcome, n did not).
func (e *Enc) Parked(n *Node) string {
	var pre string
	switch {
	case n.Parent != nil:
		pre = "(and " + n.Parent.X + " " + n.Guard + ")"
	case n.Thread == 0:
		pre = "true"
	default:
		pre = e.Spawned(n.Thread)
	}
	return "(and " + pre + " (not " + n.X + "))"
}

// BlockingNodes lists recv/sel/wait nodes.
func (e *Enc) BlockingNodes() []*Node {
	var out []*Node
	for _, n := range e.Nodes {
		if e.IsBlocking(n) {
			out = append(out, n)
		}
	}
	return out
}

// Text returns declarations + Φ as SMT-LIB commands.
func (e *Enc) Text() string {
	var sb strings.Builder
	for _, d := range e.Decls {
		sb.WriteString(d)
		sb.WriteByte('\n')
	}
	for _, a := range e.Phi {
		sb.WriteString("(assert " + a + ")\n")
	}
	return sb.String()
}

func (e *Enc) PsiTerm() string      { return and(e.Psi) }
func (e *Enc) NoFailTerm() string   { return and(e.NoFail) }
func (e *Enc) NoCancelTerm() string { return "(not cancelled)" }

// SomeFailure: some invoked provider failed.
func (e *Enc) SomeFailure() string {
	var ts []string
	for _, n := range e.Fails {
		ts = append(ts, "(and "+n.X+" fail_"+n.Ev.CallKey+")")
	}
	return or(ts)
}

// ModelVars lists the variables whose values make up a schedule.
func (e *Enc) ModelVars() []string {
	vs := []string{"cancelled", "T_cancel"}
	for _, n := range e.Nodes {
		vs = append(vs, n.X, n.C)
		switch n.Ev.Kind {
		case "exit":
			if n.Ev.Fallible {
				vs = append(vs, "fail_"+n.Ev.CallKey)
			}
		case "sel", "probe":
			vs = append(vs, "choice_"+n.Ev.Key)
		case "wait":
			vs = append(vs, "wnil_"+n.Ev.Key, n.Ev.Err)
		}
	}
	return vs
}

// Step of a schedule (events that occurred, by clock).
type Step struct {
	Line   int
	Clock  int64
	Thread int
	Kind   string
	What   string
	Key    string
}

// Schedule reads the model back into an ordered list of occurred events.
func (e *Enc) Schedule(m map[string]string) (steps []Step, cancelled bool, tcancel int64) {
	cancelled = m["cancelled"] == "true"
	tcancel, _ = smt.ParseIntLit(m["T_cancel"])
	for _, n := range e.Nodes {
		if m[n.X] != "true" {
			continue
		}
		c, _ := smt.ParseIntLit(m[n.C])
		what := ""
		switch n.Ev.Kind {
		case "enter":
			what = n.Ev.Prov
		case "exit":
			what = n.Ev.Prov
			if n.Ev.Fallible && m["fail_"+n.Ev.CallKey] == "true" {
				what += " FAIL"
			}
		case "rd", "wr":
			what = n.Ev.Cell
		case "close", "recv":
			what = n.Ev.Chan.ID
		case "sel":
			ci, _ := smt.ParseIntLit(m["choice_"+n.Ev.Key])
			if int(ci) >= 0 && int(ci) < len(n.Ev.Chans) {
				what = fmt.Sprintf("->%s:%s", n.Ev.Chans[ci].Kind, n.Ev.Chans[ci].ID)
			}
		case "wait":
			what = m[n.Ev.Err]
		case "ret", "return":
			what = n.Ev.Err
			if n.Ev.Kind == "return" {
				what = n.Ev.Ret + "," + n.Ev.Err
			}
			if strings.HasPrefix(n.Ev.Err, "werr_") {
				what += "=" + m[n.Ev.Err]
			}
		case "spawn":
			what = fmt.Sprintf("g%d", n.Ev.Spawned)
		}
		steps = append(steps, Step{Clock: c, Thread: n.Thread, Kind: n.Ev.Kind, What: what, Key: n.Ev.Key, Line: n.Ev.Line})
	}
	sort.SliceStable(steps, func(i, j int) bool { return steps[i].Clock < steps[j].Clock })
	return
}
