package checks

import (
	"bytes"
	"fmt"
	"go/types"
	"os"
	"path/filepath"
	"sort"
	"strings"
	"sync"
	"time"

	"golang.org/x/tools/go/ssa"
	"kverif/internal/corpus"
	"kverif/internal/load"
	"kverif/internal/pipeline"
	"kverif/internal/symx"
)

func init() { Registry["C11"] = checkC11 }

// checkC11: generation is deterministic and idempotent.
func checkC11(c *Ctx) error {
	c.Level = "other"
	if !c.Thorough() {
		c.KernelSolver = "race:cvc5"
	}
	k, err := NewKernel(c, "internal/kessoku", "kessoku", "kessoku_varpool.go", "kessoku_graph.go", "kessoku_maporder.go")
	if err != nil {
		return err
	}
	defer k.Close(c)
	symx.InstallKessokuStubs(k.E)
	symx.InstallFormatStub(k.E)
	k.E.MaxSteps = 1_000_000
	seen := map[string]bool{}
	var oblig, paths int
	report := func(sig map[string]string, art map[string]any, name string) {
		if seen[sigString(sig)] {
			return
		}
		seen[sigString(sig)] = true
		c.Sample(map[string]any{"violation": sig, "detail": art})
		c.Report(sig, art, name)
	}
	// (1) history dimension: same request history, second run additionally sees
	// the injector name a previous output file declares
	kk, maxLen := 2, 4
	if c.Thorough() {
		kk, maxLen = 3, 6
	}
	fn2 := k.Pkg.Func("verifHarnessVarPoolTwoRuns")
	if fn2 == nil {
		return fmt.Errorf("harness missing")
	}
	res := k.E.Run(fn2, func(ps *symx.PathState) []any { return []any{symx.IntArg(kk), symx.IntArg(maxLen)} }, nil)
	reach := 0
	for _, r := range res {
		paths++
		for _, rc := range r.Reached {
			if rc == "end" {
				reach++
			}
		}
		if !strings.HasPrefix(r.Outcome, "ok") && !strings.HasPrefix(r.Outcome, "stopped") {
			c.Inconclusive("two-run harness: path outcome " + r.Outcome)
		}
		for _, a := range r.Asserts {
			oblig++
			switch a.Verdict {
			case "violated":
				script := symx.Script(r.Inputs, a.Model)
				sig := map[string]string{"kind": "history-dependence", "site": "VarPool: name already declared by a previous output file"}
				if c.MatchKnown(sig) == nil && !seen[sigString(sig)] {
					out, _ := k.ReplayNative("internal/kessoku", "kessoku", fmt.Sprintf("verifHarnessVarPoolTwoRuns(%d, %d)", kk, maxLen), script)
					if !strings.Contains(out, "VERIF-ASSERT-FAIL "+a.ID) {
						c.Inconclusive(fmt.Sprintf("UNCONFIRMED two-run counterexample %v: %s", script, lastLines(out, 3)))
						seen[sigString(sig)] = true
						continue
					}
				}
				report(sig, map[string]any{"harness": "verifHarnessVarPoolTwoRuns", "k": kk, "script": script}, "C11-history")
			case "unknown":
				c.Inconclusive("two-run harness: obligation unknown")
			}
		}
	}
	if reach == 0 {
		return fmt.Errorf("vacuity guard: two-run harness never reached its end")
	}
	c.Coverage["two_run_paths"] = len(res)
	// (2) map-order dimension
	covered := map[string]bool{}
	nImp := 3
	fnGen := k.Pkg.Func("verifHarnessGenerateImports")
	res = k.E.Run(fnGen, func(ps *symx.PathState) []any { return []any{symx.IntArg(nImp)} }, func(ps *symx.PathState, r *symx.PathResult) {
		paths++
		if !strings.HasPrefix(r.Outcome, "ok") {
			c.Inconclusive("Generate imports harness: path outcome " + r.Outcome)
			return
		}
		var orders [][]any
		for _, ev := range r.Events {
			if io, ok := ev.(symx.ImportOrderEvent); ok {
				orders = append(orders, io.Paths)
			}
		}
		if len(orders) != 2 {
			c.Inconclusive(fmt.Sprintf("Generate imports harness: %d import blocks recorded", len(orders)))
			return
		}
		oblig++
		eq, neq := symx.SameValues(orders[0], orders[1])
		if eq {
			return
		}
		bad := neq == ""
		var model map[string]string
		if !bad {
			v, m := ps.Query(neq)
			bad, model = v == "sat", m
			if v == "unknown" {
				c.Inconclusive("Generate imports harness: query unknown")
			}
		}
		if bad {
			report(map[string]string{"kind": "map-order", "site": "Generate: import block"}, map[string]any{"orders": fmt.Sprint(orders), "model": model}, "C11-maporder-generate")
		}
	})
	c.Coverage["generate_imports_paths"] = len(res)
	covered["Generate"], covered["GetUsedImports"] = true, true
	for _, h := range []struct {
		fn   string
		n    int
		site string
	}{{"verifHarnessAntichain", 3, "findMaximumAntichainSize"}, {"verifHarnessUsedImports", 3, "GetUsedImports"}} {
		f := k.Pkg.Func(h.fn)
		res := k.E.Run(f, func(ps *symx.PathState) []any { return []any{symx.IntArg(h.n)} }, nil)
		for _, r := range res {
			paths++
			if !strings.HasPrefix(r.Outcome, "ok") {
				c.Inconclusive(h.fn + ": path outcome " + r.Outcome)
			}
			for _, a := range r.Asserts {
				oblig++
				if a.Verdict == "violated" {
					report(map[string]string{"kind": "map-order", "site": h.site}, map[string]any{"assert": a.ID}, "C11-maporder-"+h.site)
				}
			}
		}
		covered[h.site] = true
		c.Coverage[h.fn+"_paths"] = len(res)
	}
	// (3) map-range sites of the generator, from SSA
	sites, goStmts := mapRangeSites(k.P.Prog, modPath+"/internal/kessoku")
	var siteList []map[string]any
	for _, s := range sites {
		siteList = append(siteList, map[string]any{"function": s, "harness": covered[shortFn(s)]})
	}
	c.Coverage["map_range_sites"] = siteList
	c.Coverage["go_statements_in_generator"] = goStmts
	// (4) gates through the CLI
	if err := c11Gates(c, report); err != nil {
		return err
	}
	engineCoverage(c, k.E, "")
	c.Coverage["bounds"] = map[string]any{"history_length": kk, "name_length": maxLen, "map_orders": "every iteration order of maps with <= 4 entries", "reruns": "previous / truncated / longer stale output, GOMAXPROCS, invocation mode, log level, TZ/LANG, single-file invocations next to sibling leftovers", "outside": "the parser (packages.Load) other than through the rerun gates"}
	c.Coverage["explanation"] = fmt.Sprintf("History dimension: the real VarPool serves one symbolic request history (length %d, names <= %d) twice, the second allocator additionally pre-registering a symbolic injector name as ParseFile does when a previous *_band.go exists; outputs must be equal (solver, strings). Map-order dimension: the interpreter visits map entries in a nondeterministically chosen permutation; Generate's import block (format.Node stubbed to record the block; %d symbolic distinct import paths, slices.SortFunc interpreted), findMaximumAntichainSize and GetUsedImports are run with free iteration order and must give equal results. Map-range sites of the generator are listed from SSA with their harness status. Gates: every examples/* input regenerates its checked-in kessoku_band.go byte for byte; a determinism corpus is generated 4x (GOMAXPROCS 1..16, with the previous output present, with a truncated previous output) and must be byte-identical.", kk, maxLen, nImp)
	c.Coverage["obligations"] = oblig
	c.Coverage["evaluations"] = paths
	c.Coverage["distinct_nontrivial"] = reach
	c.Coverage["rule"] = "evaluation = explored harness path; distinct_nontrivial = two-run histories that reached the end"
	c.Assume("the only process-level nondeterminism of the generator is map iteration order: the generator package contains no go statement (checked on SSA)")
	return nil
}

func shortFn(full string) string {
	s := full
	if i := strings.LastIndex(s, "."); i >= 0 {
		s = s[i+1:]
	}
	if i := strings.Index(s, "$"); i >= 0 {
		s = s[:i]
	}
	return strings.TrimSuffix(strings.TrimPrefix(s, "("), ")")
}

// mapRangeSites lists functions of pkgPath that range over a map, and counts go statements.
func mapRangeSites(prog *ssa.Program, pkgPath string) ([]string, int) {
	var sites []string
	gos := 0
	seen := map[string]bool{}
	for _, pkg := range prog.AllPackages() {
		if pkg.Pkg.Path() != pkgPath {
			continue
		}
		var fns []*ssa.Function
		for _, m := range pkg.Members {
			switch m := m.(type) {
			case *ssa.Function:
				fns = append(fns, m)
			case *ssa.Type:
				for _, t := range []types.Type{m.Type(), types.NewPointer(m.Type())} {
					ms := prog.MethodSets.MethodSet(t)
					for i := 0; i < ms.Len(); i++ {
						if f := prog.MethodValue(ms.At(i)); f != nil {
							fns = append(fns, f)
						}
					}
				}
			}
		}
		var walk func(f *ssa.Function)
		walk = func(f *ssa.Function) {
			if f == nil || seen[f.String()] || strings.Contains(f.Name(), "verif") {
				return
			}
			seen[f.String()] = true
			for _, b := range f.Blocks {
				for _, in := range b.Instrs {
					switch in := in.(type) {
					case *ssa.Range:
						if _, ok := in.X.Type().Underlying().(*types.Map); ok {
							sites = append(sites, f.String())
						}
					case *ssa.Go:
						gos++
					}
				}
			}
			for _, an := range f.AnonFuncs {
				walk(an)
			}
		}
		for _, f := range fns {
			walk(f)
		}
	}
	sort.Strings(sites)
	return dedupe(sites), gos
}

func c11Gates(c *Ctx, report func(sig map[string]string, art map[string]any, name string)) error {
	t0 := time.Now()
	pipe, err := pipeline.New(c.ID + "-gate")
	if err != nil {
		return err
	}
	defer pipe.Close()
	// (a) the checked-in examples regenerate byte for byte
	exDir := filepath.Join(pipe.S.Repo, "examples")
	ents, _ := os.ReadDir(exDir)
	examples := 0
	for _, e := range ents {
		dir := filepath.Join(exDir, e.Name())
		band := filepath.Join(dir, "kessoku_band.go")
		want, err := os.ReadFile(band)
		if err != nil {
			continue
		}
		examples++
		out, err := load.Run(dir, true, 2*time.Minute, nil, pipe.CLI, "kessoku.go")
		got, _ := os.ReadFile(band)
		if err != nil || !bytes.Equal(got, want) {
			report(map[string]string{"kind": "gate-example-differs", "example": e.Name()}, map[string]any{"cli_output": lastLines(string(out), 3)}, "C11-example-"+e.Name())
		}
	}
	c.Coverage["gate_examples"] = examples
	// (b) repeated runs: fresh, with previous output, with truncated previous output
	progs := append(corpus.FD(), corpus.FW()...)
	pipe.Generate(progs, 16)
	runs := 0
	var rmu sync.Mutex
	var rwg sync.WaitGroup
	rsem := make(chan struct{}, 16)
	lockedReport := func(sig map[string]string, art map[string]any, name string) {
		rmu.Lock()
		defer rmu.Unlock()
		report(sig, art, name)
	}
	for _, it := range pipe.Items {
		if it.CLIErr != nil {
			c.Inconclusive(fmt.Sprintf("determinism gate: generator rejected %q: %s", it.Prog.Desc, lastLines(it.CLIOut, 2)))
			continue
		}
		it := it
		rwg.Add(1)
		rsem <- struct{}{}
		go func() {
			defer func() { <-rsem; rwg.Done() }()
			rerunVariants(c, pipe, it, &rmu, &runs, lockedReport)
		}()
	}
	rwg.Wait()
	c.Coverage["gate_rerun_programs"] = len(pipe.Items)
	c.Coverage["gate_reruns"] = runs
	c.Coverage["gates_s"] = time.Since(t0).Seconds()
	return nil
}

// singleFileVariants: for programs with >= 3 declaration files, the last file generated alone
// (as //go:generate kessoku $GOFILE does) gives the same output whatever the siblings'
// outputs look like: absent, complete, empty (an interrupted run), cut inside the header.
func singleFileVariants(c *Ctx, pipe *pipeline.Pipe, it *pipeline.Item, rmu *sync.Mutex, runs *int, report func(sig map[string]string, art map[string]any, name string)) {
	srcs := it.Prog.SourceFiles()
	if len(srcs) < 3 {
		return
	}
	band := func(f string) string { return strings.TrimSuffix(f, ".go") + "_band.go" }
	complete := map[string]string{}
	for k, v := range it.GenSrc {
		complete[k] = v
	}
	last := band(srcs[len(srcs)-1])
	var ref string
	for vi, variant := range []string{"siblings-absent", "siblings-complete", "siblings-empty", "siblings-cut-at-20-bytes", "siblings-cut-at-48-bytes"} {
		for _, f := range srcs {
			_ = os.Remove(filepath.Join(it.Dir, band(f)))
		}
		for _, f := range srcs[:len(srcs)-1] {
			src := complete[band(f)]
			var data []byte
			switch variant {
			case "siblings-absent":
				continue
			case "siblings-complete":
				data = []byte(src)
			case "siblings-empty":
				data = []byte{}
			case "siblings-cut-at-20-bytes":
				data = []byte(src[:min(20, len(src))])
			case "siblings-cut-at-48-bytes":
				data = []byte(src[:min(48, len(src))])
			}
			_ = os.WriteFile(filepath.Join(it.Dir, band(f)), data, 0o644)
		}
		pipe.RunCLIHow(it, nil, "last-alone")
		rmu.Lock()
		*runs++
		rmu.Unlock()
		got, _ := os.ReadFile(filepath.Join(it.Dir, last))
		if vi == 0 {
			ref = string(got)
			if it.CLIErr != nil || ref == "" {
				c.Inconclusive(fmt.Sprintf("single-file gate: %q alone not generated: %s", srcs[len(srcs)-1], lastLines(it.CLIOut, 2)))
				return
			}
			continue
		}
		if it.CLIErr != nil || string(got) != ref {
			report(map[string]string{"kind": "gate-rerun-differs", "variant": "last-file-alone-" + variant, "program": it.Prog.Desc},
				map[string]any{"reference": ref, "later": string(got), "cli_error": fmt.Sprint(it.CLIErr), "cli_output": lastLines(it.CLIOut, 3)}, "C11-single-"+corpus.Sanitize(it.Prog.Desc)+"-"+corpus.Sanitize(variant))
			return
		}
	}
}

// rerunVariants regenerates one program under every rerun variant and compares with the first output.
func rerunVariants(c *Ctx, pipe *pipeline.Pipe, it *pipeline.Item, rmu *sync.Mutex, runs *int, report func(sig map[string]string, art map[string]any, name string)) {
	defer singleFileVariants(c, pipe, it, rmu, runs, report)
	{
		first := map[string]string{}
		for k, v := range it.GenSrc {
			first[k] = v
		}
		variants := []string{"rerun-with-previous-output", "rerun-GOMAXPROCS=1", "rerun-truncated-previous-output", "rerun-GOMAXPROCS=16", "rerun-longer-stale-output", "rerun-GOMAXPROCS=2", "rerun-GOMAXPROCS=5", "rerun-how=abs", "rerun-how=dot", "rerun-env TZ=Asia/Tokyo LANG=ja_JP.UTF-8", "rerun-how=loglevel-debug", "rerun-how=loglevel-error"}
		if c.Thorough() {
			for _, n := range []int{3, 4, 6, 7, 8, 9, 10, 11, 12, 13, 14, 15} {
				variants = append(variants, fmt.Sprintf("rerun-GOMAXPROCS=%d", n))
			}
		}
		for vi, variant := range variants {
			if strings.Contains(variant, "truncated") {
				for name, src := range first {
					_ = os.WriteFile(filepath.Join(it.Dir, name), []byte(src[:len(src)/2]), 0o644)
				}
			}
			if strings.Contains(variant, "longer") {
				for name, src := range first {
					_ = os.WriteFile(filepath.Join(it.Dir, name), []byte(src+"\nfunc verifStaleLeftover() {}\n// stale tail of an older, longer output\n"), 0o644)
				}
			}
			env := []string{}
			if i := strings.Index(variant, "GOMAXPROCS="); i >= 0 {
				env = append(env, variant[i:])
			}
			how := ""
			if i := strings.Index(variant, "how="); i >= 0 {
				how = variant[i+4:]
			}
			if i := strings.Index(variant, "env "); i >= 0 {
				env = append(env, strings.Fields(variant[i+4:])...)
			}
			pipe.RunCLIHow(it, env, how)
			rmu.Lock()
			*runs++
			rmu.Unlock()
			same := it.CLIErr == nil && len(it.GenSrc) == len(first)
			for name, src := range first {
				if it.GenSrc[name] != src {
					same = false
				}
			}
			if !same {
				report(map[string]string{"kind": "gate-rerun-differs", "variant": variant, "program": it.Prog.Desc},
					map[string]any{"first": first, "later": it.GenSrc, "cli_error": fmt.Sprint(it.CLIErr), "cli_output": lastLines(it.CLIOut, 3), "run": vi}, "C11-rerun-"+corpus.Sanitize(it.Prog.Desc)+"-"+corpus.Sanitize(variant))
				break
			}
		}
	}
}
