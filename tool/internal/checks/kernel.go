package checks

import (
	"bytes"
	"encoding/json"
	"fmt"
	"os"
	"path/filepath"
	"strings"
	"sync"
	"time"

	"golang.org/x/tools/go/ssa"
	"kverif/internal/load"
	"kverif/internal/smt"
	"kverif/internal/symx"
)

const modPath = "github.com/mazrean/kessoku"

// defaultSolver for kernel harnesses (strings-heavy queries).
var defaultSolver = "portfolio"

// pureStd are standard-library packages whose code the interpreter may run.
var pureStd = map[string]bool{
	"slices": true, "maps": true, "strings": true, "container/list": true, "errors": true,
	"sort": true, "iter": true, "cmp": true, "strconv": true, "unicode": true, "unicode/utf8": true,
	"path/filepath": true, "path": true, "go/ast": true, "go/token": true, "bytes": true, "math": true,
	"math/bits": true, "internal/stringslite": true, "internal/bytealg": true, "internal/filepathlite": true,
	"io/fs": true, "internal/itoa": true, "internal/oserror": true,
}

func allowRepo(path string) bool {
	return path == modPath || strings.HasPrefix(path, modPath+"/") || pureStd[path] || strings.HasPrefix(path, "verifcorpus")
}

// Kernel bundles a scratch copy, its SSA and an engine for harness runs.
type Kernel struct {
	S    *load.Scratch
	P    *load.Program
	E    *symx.Engine
	Pkg  *ssa.Package
	Path string

	mu      sync.Mutex
	solvers []*smt.Solver
	wins    map[string]int
}

// harnessFile describes a harness file to drop into the scratch copy.
type harnessFile struct{ name, rel string }

// NewKernel prepares the scratch copy with harness files for package rel
// (e.g. "internal/kessoku") and loads it.
func NewKernel(c *Ctx, relPkg, pkgName string, harnesses ...string) (*Kernel, error) {
	s, err := load.NewScratch(c.ID)
	if err != nil {
		return nil, err
	}
	k := &Kernel{S: s}
	tmpl, err := os.ReadFile(filepath.Join(load.VerifDir(), "harness", "intrinsics.go.tmpl"))
	if err != nil {
		s.Cleanup()
		return nil, err
	}
	intr := bytes.Replace(tmpl, []byte("PKGNAME"), []byte(pkgName), 1)
	if err := s.WriteFile(filepath.Join(relPkg, "zz_verif_intrinsics.go"), intr); err != nil {
		s.Cleanup()
		return nil, err
	}
	for _, h := range harnesses {
		if err := s.CopyHarness(h, filepath.Join(relPkg, "zz_verif_"+h)); err != nil {
			s.Cleanup()
			return nil, err
		}
	}
	t0 := time.Now()
	p, err := load.LoadSSA(s.Repo, true, false, "./"+relPkg)
	if err != nil {
		s.Cleanup()
		return nil, fmt.Errorf("load %s: %w", relPkg, err)
	}
	c.Coverage["load_s"] = time.Since(t0).Seconds()
	k.P = p
	k.Path = modPath + "/" + relPkg
	if relPkg == "." {
		k.Path = modPath
	}
	k.Pkg = p.SSA[k.Path]
	if k.Pkg == nil {
		s.Cleanup()
		return nil, fmt.Errorf("package %s not in SSA program", k.Path)
	}
	kind := os.Getenv("VERIF_SOLVER")
	if kind == "" {
		kind = defaultSolver
	}
	if c.KernelSolver != "" {
		kind = c.KernelSolver
	}
	var sol *smt.Solver
	var mkSolver func() *smt.Solver
	if kind == "portfolio" || strings.HasPrefix(kind, "race:") {
		k.wins = map[string]int{}
		members := []string{"z3", "z3-new", "cvc5"}
		if strings.HasPrefix(kind, "race:") {
			members = strings.Split(strings.TrimPrefix(kind, "race:"), "+")
		}
		mkSolver = func() *smt.Solver {
			s := smt.NewPortfolio(members, 60000)
			s.Prelude = symx.SMTPrelude()
			k.mu.Lock()
			k.solvers = append(k.solvers, s)
			k.mu.Unlock()
			return s
		}
		sol = mkSolver()
	} else {
		sol, err = smt.New(kind, 60000)
		if err != nil {
			s.Cleanup()
			return nil, err
		}
		sol.ResetMode = !c.KernelIncremental
	}
	sol.Prelude = symx.SMTPrelude()
	k.E = symx.NewEngine(p.Prog)
	k.E.Solver = sol
	if mkSolver != nil {
		k.E.NewSolver = mkSolver
		k.E.Workers = 16 / len(strings.Split(strings.TrimPrefix(kind, "race:"), "+"))
		if kind == "portfolio" {
			k.E.Workers = 5
		}
		if v := os.Getenv("VERIF_WORKERS"); v != "" {
			fmt.Sscan(v, &k.E.Workers)
		}
	}
	k.E.AllowPkg = allowRepo
	k.E.InitPkgs = []*ssa.Package{k.Pkg}
	k.E.EagerInit = func(path string) bool { return path == modPath || strings.HasPrefix(path, modPath+"/") }
	return k, nil
}

func (k *Kernel) Close(c *Ctx) {
	if len(k.solvers) > 0 {
		for _, s := range k.solvers {
			c.Solver.Add(s.Stats)
			for n, w := range s.Wins {
				k.wins[n] += w
			}
		}
		c.Coverage["portfolio_wins"] = k.wins
	} else if k.E != nil && k.E.Solver != nil && !k.solverClosed() {
		c.Solver.Add(k.E.Solver.Stats)
		k.E.Solver.Close()
	}
	k.S.Cleanup()
}

// ReplayNative runs TestVerifReplay in the scratch copy with the given script
// and harness call expression; it returns the test output.
func (k *Kernel) ReplayNative(relPkg, pkgName, callExpr string, script []any) (string, error) {
	data, _ := json.Marshal(script)
	sp := filepath.Join(k.S.Dir, "script.json")
	if err := os.WriteFile(sp, data, 0o644); err != nil {
		return "", err
	}
	test := fmt.Sprintf(`package %s

import (
	"fmt"
	"testing"
)

func TestVerifReplay(t *testing.T) {
	defer func() {
		if r := recover(); r != nil {
			if _, ok := r.(verifAssumeFailed); ok {
				fmt.Println("VERIF-ASSUME-FAILED")
				return
			}
			panic(r)
		}
	}()
	%s
	fmt.Println("VERIF-DONE failures:", len(verifFailures))
}
`, pkgName, callExpr)
	if err := k.S.WriteFile(filepath.Join(relPkg, "zz_verif_replay_test.go"), []byte(test)); err != nil {
		return "", err
	}
	out, err := load.Run(k.S.Repo, true, 5*time.Minute, []string{"VERIF_SCRIPT=" + sp},
		"go", "test", "-vet=off", "-count=1", "-run", "^TestVerifReplay$", "-v", "./"+relPkg)
	return string(out), err
}

// engineCoverage writes the engine statistics into the coverage map.
func engineCoverage(c *Ctx, e *symx.Engine, prefix string) {
	c.Coverage[prefix+"paths"] = e.Paths
	c.Coverage[prefix+"branches_decided_by_solver"] = e.SolverBranches
	c.Coverage[prefix+"forks_on_fresh_inputs"] = e.FreshForks
	c.Coverage[prefix+"unwind_outcomes"] = e.Unwinds
	if len(e.Unsupported) > 0 {
		c.Coverage[prefix+"unsupported"] = e.Unsupported
	}
	var fns []string
	for f := range e.FuncsRun {
		if strings.Contains(f, modPath) && !strings.Contains(f, "verif") {
			if i := strings.IndexByte(f, '['); i >= 0 {
				f = f[:i] + "[…]"
			}
			fns = append(fns, f)
		}
	}
	sortStrings(fns)
	fns = dedupe(fns)
	c.Coverage[prefix+"functions_encoded"] = fns
}

func (k *Kernel) solverClosed() bool { return k.E.Solver == nil }
