package checks

import (
	"fmt"
	"os"
	"runtime"
	"sort"
	"strings"
	"sync"
	"time"

	"golang.org/x/tools/go/ssa"
	"kverif/internal/conc"
	"kverif/internal/corpus"
	"kverif/internal/pipeline"
	"kverif/internal/smt"
	"kverif/internal/symx"
)

// InjCase is one generated injector with everything the checks need.
type InjCase struct {
	Item *pipeline.Item
	Decl corpus.Decl
	Ref  *corpus.Ref
	Fn   *ssa.Function
	Prog *symx.CProgram
	Enc  *conc.Enc
	Sol  *smt.Solver
	c    *Ctx
	pipe *pipeline.Pipe
	st   *injStats
}

func (ic *InjCase) Name() string {
	return fmt.Sprintf("%s/%s [%s: %s]", ic.Item.Prog.Pkg, ic.Decl.Name, ic.Item.Prog.Family, ic.Item.Prog.Desc)
}

// Query decides Φ ∧ extra… on the injector's encoding. wantModel fetches the schedule variables.
func (ic *InjCase) Query(wantModel bool, extra ...string) (smt.Verdict, map[string]string) {
	var vars []string
	if wantModel {
		vars = ic.Enc.ModelVars()
	}
	v, m := ic.Sol.CheckAssuming(extra, vars)
	if v == smt.Sat && wantModel {
		// prefer a model the replay can realise without luck: every select it
		// executes has a single enabled branch
		if v2, m2 := ic.Sol.CheckAssuming(append(append([]string{}, extra...), ic.Enc.DeterministicSelects()), vars); v2 == smt.Sat {
			m = m2
		}
	}
	// cross-solver diff (thorough tier): a seeded sample of the queries is
	// decided again by cvc5 and z3 5.1.0 on the full text; a disagreement is a
	// broken encoding, never a verdict.
	if ic.c.Thorough() && v != smt.Unknown {
		ic.st.mu.Lock()
		ic.st.queryNo++
		sample := (ic.st.queryNo+ic.c.Seed)%97 == 0 && ic.st.diffed < 400
		if sample {
			ic.st.diffed++
		}
		ic.st.mu.Unlock()
		if sample {
			text := ic.Enc.Text()
			for _, t := range extra {
				text += "(assert " + t + ")\n"
			}
			for _, kind := range []string{"cvc5", "z3-new"} {
				v2 := smt.OneShot(kind, text, 60000)
				if v2 != smt.Unknown && v2 != v {
					ic.st.mu.Lock()
					ic.st.disagree = append(ic.st.disagree, fmt.Sprintf("%s: z3=%s %s=%s", ic.Name(), v, kind, v2))
					ic.st.mu.Unlock()
				}
			}
		}
	}
	return v, m
}

type injStats struct {
	mu             sync.Mutex
	programs       int
	injectors      int
	multiThread    int
	threads        int
	events         int
	gateCLI        []string
	gateCompile    []string
	unsupported    []string
	funcs          map[string]bool
	extractNs      int64
	validationSeen int
	validated      int
	modelInReality int
	realityInModel int
	validationFail []string
	queryNo        int
	diffed         int
	disagree       []string
	confirmed      map[string]string // signature -> "confirmed" / "unconfirmed: …"
	replays        int
	replayOK       int
}

func corpusFor(c *Ctx) []*corpus.Program {
	var progs []*corpus.Program
	if c.Thorough() {
		for n := 1; n <= 3; n++ {
			progs = append(progs, corpus.F1(n, n, true, true)...)
		}
		progs = append(progs, corpus.F1(4, 2, false, true)...)
		progs = append(progs, corpus.F1(5, 0, false, false)...)
		progs = append(progs, corpus.F2(true)...)
		progs = append(progs, corpus.F5(2, 1)...)
		progs = append(progs, corpus.F6(2, 1)...)
		progs = append(progs, corpus.F6(3, 4)...)
		progs = append(progs, corpus.F4(int64(c.Seed)+1, 300, 8)...)
		progs = append(progs, corpus.FG(2, 2, 1, 0, 1)...)
		progs = append(progs, corpus.FG(3, 2, 1, 0, 2)...)
		progs = append(progs, corpus.FG(3, 2, 0, 2, 1)...)
		progs = append(progs, corpus.FG(2, 3, 2, 2, 2)...)
		progs = append(progs, corpus.FW()...)
		progs = append(progs, corpus.FS()...)
	} else {
		progs = append(progs, corpus.F1(1, 1, true, false)...)
		progs = append(progs, corpus.F1(2, 2, true, false)...)
		progs = append(progs, corpus.F1(3, 2, false, true)...)
		progs = append(progs, corpus.F1(4, 1, false, false)...)
		progs = append(progs, corpus.F2(false)...)
		progs = append(progs, corpus.F5(2, 9)...)
		progs = append(progs, corpus.F6(2, 1)...)
		progs = append(progs, corpus.F6(3, 3)...)
		progs = append(progs, corpus.FG(2, 2, 2, 0, 1)...)
		progs = append(progs, corpus.FG(3, 2, 2, 2, 2)...)
		progs = append(progs, corpus.FG(3, 2, 0, 0, 4)...)
		progs = append(progs, corpus.FW()...)
		progs = append(progs, corpus.FS()...)
	}
	{
		var sel []*corpus.Program
		for _, p := range progs {
			if !p.SignatureOnly {
				sel = append(sel, p)
			}
		}
		progs = sel
	}
	if v := os.Getenv("VERIF_CORPUS_MATCH"); v != "" { // debugging aid: only programs whose description contains v
		var sel []*corpus.Program
		for _, p := range progs {
			if strings.Contains(p.Desc, v) {
				sel = append(sel, p)
			}
		}
		progs = sel
	}
	if v := os.Getenv("VERIF_CORPUS_LIMIT"); v != "" {
		var n int
		fmt.Sscan(v, &n)
		if n > 0 && n < len(progs) {
			progs = progs[:n]
		}
	}
	return progs
}

// forEachInjector runs the pipeline on the corpus and calls fn for every
// generated injector whose event structure could be extracted.
func forEachInjector(c *Ctx, progs []*corpus.Program, fn func(ic *InjCase)) (*injStats, error) {
	st := &injStats{funcs: map[string]bool{}, confirmed: map[string]string{}}
	{
		// stated bounds: the program dimension is this enumeration, nothing else
		fam := map[string]int{}
		maxProv := 0
		for _, p := range progs {
			fam[p.Family]++
			for _, d := range p.Decls {
				if len(d.Provs) > maxProv {
					maxProv = len(d.Provs)
				}
			}
		}
		c.Coverage["bounds"] = map[string]any{
			"programs_per_family":           fam,
			"max_providers_per_declaration": maxProv,
			"schedules":                     "all (one clock per event: every interleaving, provider latency and select choice of each enumerated injector is decided by the solver)",
			"outside":                       "declarations not in the enumerated families; providers that panic or never return; the x/sync errgroup and context implementations (stubbed by their contract)",
		}
	}
	t0 := time.Now()
	pipe, err := pipeline.New(c.ID)
	if err != nil {
		return nil, err
	}
	defer pipe.Close()
	workers := runtime.NumCPU()
	if workers > 16 {
		workers = 16
	}
	pipe.Generate(progs, workers)
	c.Coverage["cli_build_s"] = pipe.BuildTime.Seconds()
	c.Coverage["cli_runs_s"] = pipe.GenTime.Seconds()
	st.programs = len(progs)

	nw := workers
	if nw > 8 {
		nw = 8
	}
	var wg sync.WaitGroup
	ch := make(chan *pipeline.Item)
	errs := make(chan error, nw)
	for w := 0; w < nw; w++ {
		wg.Add(1)
		go func() {
			defer wg.Done()
			ld, err := pipe.NewLoader()
			if err != nil {
				errs <- err
				for range ch {
				}
				return
			}
			sol, err := smt.New("z3", 60000)
			if err != nil {
				errs <- err
				for range ch {
				}
				return
			}
			defer func() {
				c.mu.Lock()
				c.Solver.Add(sol.Stats)
				c.mu.Unlock()
				sol.Close()
			}()
			eng := symx.NewEngine(ld.Prog)
			eng.AllowPkg = func(path string) bool {
				return path == modPath || strings.HasPrefix(path, "verifcorpus/") || pureStd[path]
			}
			eng.EagerInit = func(path string) bool { return false }
			eng.MaxSteps = 200000
			eng.MaxPaths = 4096
			for it := range ch {
				processItem(c, st, pipe, ld, eng, sol, it, fn)
			}
			st.mu.Lock()
			for f := range eng.FuncsRun {
				if strings.Contains(f, modPath) {
					// one entry per generic function, not per instantiation
					if i := strings.IndexByte(f, '['); i >= 0 {
						f = f[:i] + "[…]"
					}
					st.funcs[f] = true
				}
			}
			st.mu.Unlock()
		}()
	}
	for _, it := range pipe.Items {
		ch <- it
	}
	close(ch)
	wg.Wait()
	select {
	case err := <-errs:
		return st, err
	default:
	}
	c.Coverage["pipeline_s"] = time.Since(t0).Seconds()
	c.Coverage["programs"] = st.programs
	c.Coverage["injectors"] = st.injectors
	c.Coverage["injectors_with_goroutines"] = st.multiThread
	c.Coverage["threads"] = st.threads
	c.Coverage["events"] = st.events
	c.Coverage["extract_s"] = float64(st.extractNs) / 1e9
	var fns []string
	for f := range st.funcs {
		fns = append(fns, f)
	}
	sort.Strings(fns)
	c.Coverage["functions_interpreted"] = fns
	c.Coverage["traces_validated_against_impl"] = st.replayOK
	c.Coverage["replays_run"] = st.replays
	if c.Thorough() {
		c.Coverage["cross_solver_queries"] = st.diffed
		c.Coverage["cross_solver_disagreements"] = len(st.disagree)
	}
	c.Coverage["gate_cli_rejections"] = len(st.gateCLI)
	c.Coverage["gate_compile_failures"] = len(st.gateCompile)
	if len(st.gateCLI) > 0 {
		c.Coverage["gate_cli_rejected"] = head(st.gateCLI, 10)
	}
	if len(st.gateCompile) > 0 {
		c.Coverage["gate_compile_failed"] = head(st.gateCompile, 10)
		c.Inconclusive(fmt.Sprintf("%d corpus programs were dropped from this run because the generated package does not compile (C04 reports that): %s", len(st.gateCompile), st.gateCompile[0]))
	}
	if len(st.gateCLI) > 0 {
		c.Inconclusive(fmt.Sprintf("%d corpus programs were dropped from this run because the generator rejected a valid declaration or emitted no function (C09 reports that): %s", len(st.gateCLI), st.gateCLI[0]))
	}
	if len(st.disagree) > 0 {
		return st, fmt.Errorf("cross-solver disagreement (broken encoding): %s", st.disagree[0])
	}
	if len(st.unsupported) > 0 {
		c.Coverage["extraction_unsupported"] = head(st.unsupported, 10)
		c.Inconclusive(fmt.Sprintf("%d injectors could not be encoded (first: %s)", len(st.unsupported), st.unsupported[0]))
	}
	return st, nil
}

func head(s []string, n int) []string {
	if len(s) > n {
		return s[:n]
	}
	return s
}

func processItem(c *Ctx, st *injStats, pipe *pipeline.Pipe, ld *pipeline.Loader, eng *symx.Engine, sol *smt.Solver, it *pipeline.Item, fn func(ic *InjCase)) {
	if it.CLIErr != nil {
		st.mu.Lock()
		st.gateCLI = append(st.gateCLI, fmt.Sprintf("%s [%s]: %v: %s", it.Prog.Pkg, it.Prog.Desc, it.CLIErr, lastLines(it.CLIOut, 2)))
		st.mu.Unlock()
		return
	}
	ld.LoadItem(it)
	if it.Err != nil {
		st.mu.Lock()
		st.gateCompile = append(st.gateCompile, fmt.Sprintf("%s [%s]: %v", it.Prog.Pkg, it.Prog.Desc, it.Err))
		st.mu.Unlock()
		return
	}
	for _, d := range it.Prog.Decls {
		f := it.SSA.Func(d.Name)
		if f == nil {
			st.mu.Lock()
			st.gateCLI = append(st.gateCLI, fmt.Sprintf("%s [%s]: no function %s generated", it.Prog.Pkg, it.Prog.Desc, d.Name))
			st.mu.Unlock()
			continue
		}
		t0 := time.Now()
		cp := symx.ExtractInjector(eng, it.SSA, f)
		// the reference speaks of every field of the declaration's struct expansions, also of
		// those the generated code happens not to read on any path
		for _, pr := range d.Provs {
			if pr.Kind == corpus.KStruct {
				for _, fld := range pr.Fields {
					cp.Flds["fld_"+corpus.Sanitize(strings.TrimPrefix(pr.Struct, "*"))+"_"+fld] = true
				}
			}
		}
		// ... and of every provider the declaration needs, also of those the generated code
		// never calls (the comparison must stay a solver verdict, not a solver error)
		refd := it.Prog.Evaluate(d)
		for _, pr := range d.Provs {
			if pr.Kind == corpus.KFunc || pr.Kind == corpus.KLiteral {
				if _, ok := cp.Provs[pr.Sym()]; !ok && refd.Valid {
					if _, needed := refd.Calls[pr.Sym()]; needed {
						cp.Provs[pr.Sym()] = len(pr.Params)
						cp.ExtraOuts = append(cp.ExtraOuts, symx.ExtraOut{Prov: pr.Sym(), Results: len(pr.Results), Arity: len(pr.Params)})
					}
				}
			}
		}
		enc, err := conc.Build(cp)
		dt := time.Since(t0).Nanoseconds()
		st.mu.Lock()
		st.extractNs += dt
		st.mu.Unlock()
		if err != nil {
			st.mu.Lock()
			st.unsupported = append(st.unsupported, fmt.Sprintf("%s/%s [%s]: %v", it.Prog.Pkg, d.Name, it.Prog.Desc, err))
			st.mu.Unlock()
			continue
		}
		st.mu.Lock()
		st.injectors++
		if len(cp.Threads) > 1 {
			st.multiThread++
		}
		st.threads += len(cp.Threads)
		st.events += len(enc.Nodes)
		st.mu.Unlock()
		sol.Reset()
		sol.Send(enc.Text())
		ic := &InjCase{Item: it, Decl: d, Ref: it.Prog.Evaluate(d), Fn: f, Prog: cp, Enc: enc, Sol: sol, c: c, pipe: pipe, st: st}
		fn(ic)
	}
}

// scheduleText renders a model as a readable schedule.
func scheduleText(enc *conc.Enc, m map[string]string) []string {
	steps, cancelled, tc := enc.Schedule(m)
	var out []string
	if cancelled {
		out = append(out, fmt.Sprintf("caller cancels at T=%d", tc))
	}
	for _, s := range steps {
		th := "main"
		if s.Thread > 0 {
			th = fmt.Sprintf("g%d", s.Thread)
		}
		out = append(out, fmt.Sprintf("%d %s %s %s", s.Clock, th, s.Kind, s.What))
	}
	return out
}
