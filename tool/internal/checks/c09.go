package checks

import (
	"bytes"
	"fmt"
	"os"
	"path/filepath"
	"strings"
	"time"

	"golang.org/x/tools/go/ssa"
	"kverif/internal/corpus"
	"kverif/internal/load"
	"kverif/internal/pipeline"
	"kverif/internal/symx"
)

func init() { Registry["C09"] = checkC09 }

// checkC09: unsatisfiable graphs are refused, satisfiable ones accepted.
func checkC09(c *Ctx) error {
	c.Level = "other"
	c.KernelSolver, c.KernelIncremental = "z3", true
	k, err := NewKernel(c, "internal/kessoku", "kessoku", "kessoku_graph.go", "kessoku_varpool.go")
	if err != nil {
		return err
	}
	defer k.Close(c)
	symx.InstallKessokuStubs(k.E)
	symx.InstallSyncStubs(k.E)
	allow := k.E.AllowPkg
	k.E.AllowPkg = func(p string) bool {
		return allow(p) || p == "go/types" || p == "go/constant" || p == "sync/atomic" || p == "go/version" || p == "internal/gover" || p == "internal/types/errors" || p == "math/big"
	}
	k.E.MaxSteps = 2_000_000
	k.E.NewSolver = nil
	k.E.Solver.Close()
	k.E.Solver = nil
	k.E.Workers = 12
	var oblig, paths, refusedPaths, acceptedPaths int
	viol := map[string]bool{}
	harnessViolations := func(name string, results []symx.PathResult, extra map[string]any) {
		for _, r := range results {
			paths++
			if !strings.HasPrefix(r.Outcome, "ok") && !strings.HasPrefix(r.Outcome, "stopped") {
				c.Inconclusive(fmt.Sprintf("%s: path outcome %s", name, r.Outcome))
				continue
			}
			for _, a := range r.Asserts {
				oblig++
				if a.Verdict == "violated" {
					var choices []int
					for _, d := range r.Decisions {
						choices = append(choices, d.Choice)
					}
					sig := map[string]string{"kind": a.ID, "harness": name}
					key := sigString(sig)
					if viol[key] {
						continue
					}
					viol[key] = true
					art := map[string]any{"harness": name, "choices": choices, "assert": a.ID}
					for k, v := range extra {
						art[k] = v
					}
					c.Sample(map[string]any{"violation": sig, "choices": choices})
					c.Report(sig, art, "C09-"+name+"-"+a.ID)
				} else if a.Verdict == "unknown" {
					c.Inconclusive(name + ": obligation " + a.ID + " unknown")
				}
			}
		}
	}
	// (1) cycle detection on every relation over n nodes
	nCyc, par := 3, false
	if c.Thorough() {
		nCyc, par = 4, false
	}
	fnCyc := k.Pkg.Func("verifHarnessDetectCycles")
	if fnCyc == nil {
		return fmt.Errorf("harness missing")
	}
	t0 := time.Now()
	res := k.E.Run(fnCyc, func(ps *symx.PathState) []any { return []any{symx.IntArg(nCyc), par} }, nil)
	harnessViolations("detectCycles", res, map[string]any{"n": nCyc, "parallel_edges": par})
	c.Coverage["detectCycles_paths"] = len(res)
	c.Coverage["detectCycles_s"] = time.Since(t0).Seconds()
	pn := 2
	if c.Thorough() {
		pn = 3
	}
	res = k.E.Run(fnCyc, func(ps *symx.PathState) []any { return []any{symx.IntArg(pn), true} }, nil)
	harnessViolations("detectCycles", res, map[string]any{"n": pn, "parallel_edges": true})
	// (2) NewGraph on every small declaration
	type ngBound struct{ np, nt int }
	bounds := []ngBound{{2, 2}}
	if c.Thorough() {
		bounds = []ngBound{{3, 2}, {2, 3}}
	}
	np, nt := bounds[0].np, bounds[0].nt
	fnNG := k.Pkg.Func("verifHarnessNewGraph")
	t0 = time.Now()
	res = nil
	for _, b := range bounds {
		b := b
		r := k.E.Run(fnNG, func(ps *symx.PathState) []any { return []any{symx.IntArg(b.np), symx.IntArg(b.nt)} }, nil)
		harnessViolations("NewGraph", r, map[string]any{"providers": b.np, "types": b.nt})
		res = append(res, r...)
	}
	ngReached := 0
	for _, r := range res {
		for _, rc := range r.Reached {
			if rc == "end" {
				ngReached++
			}
		}
	}
	c.Coverage["NewGraph_paths"] = len(res)
	c.Coverage["NewGraph_paths_reaching_end"] = ngReached
	c.Coverage["NewGraph_s"] = time.Since(t0).Seconds()
	// (3) failure points of Processor.ProcessFiles
	symx.InstallProcessorStubs(k.E, 2)
	fnProc := k.Pkg.Func("verifHarnessProcess")
	nfiles := 2
	res = k.E.Run(fnProc, func(ps *symx.PathState) []any { return []any{symx.IntArg(nfiles)} }, nil)
	c.Coverage["processFiles_paths"] = len(res)
	for _, r := range res {
		paths++
		if !strings.HasPrefix(r.Outcome, "ok") {
			c.Inconclusive("processFiles: path outcome " + r.Outcome)
			continue
		}
		failed := !symx.IsNilIface(r.Ret)
		// per file: events between its parse and the next parse
		type fileRun struct {
			name               string
			builds             int
			parseErr, injErr   bool
			created, genFailed bool
			createErr          bool
		}
		var runs []*fileRun
		for _, ev := range r.Events {
			pe, ok := ev.(symx.ProcEvent)
			if !ok {
				continue
			}
			switch pe.Op {
			case "parse":
				runs = append(runs, &fileRun{name: pe.File, builds: pe.N})
			case "parse-error":
				runs = append(runs, &fileRun{name: pe.File, parseErr: true})
			case "create-injector-error":
				runs[len(runs)-1].injErr = true
			case "os.Create":
				runs[len(runs)-1].created = true
			case "os.Create-error":
				runs[len(runs)-1].createErr = true
			case "generate-error":
				runs[len(runs)-1].genFailed = true
			}
		}
		anyRefusal := false
		for _, fr := range runs {
			oblig += 2
			refused := fr.parseErr || fr.injErr
			if refused {
				anyRefusal = true
				refusedPaths++
				if fr.created {
					sig := map[string]string{"kind": "output-created-although-refused", "harness": "processFiles"}
					if !viol[sigString(sig)] {
						viol[sigString(sig)] = true
						c.Report(sig, map[string]any{"events": fmt.Sprint(r.Events)}, "C09-process-created")
					}
				}
			}
			if (refused || fr.createErr || fr.genFailed) && !failed {
				sig := map[string]string{"kind": "failure-not-reported", "harness": "processFiles"}
				if !viol[sigString(sig)] {
					viol[sigString(sig)] = true
					c.Report(sig, map[string]any{"events": fmt.Sprint(r.Events)}, "C09-process-silent")
				}
			}
			if !refused && fr.builds > 0 && !fr.created && !fr.createErr {
				sig := map[string]string{"kind": "accepted-file-without-output", "harness": "processFiles"}
				if !viol[sigString(sig)] {
					viol[sigString(sig)] = true
					c.Report(sig, map[string]any{"events": fmt.Sprint(r.Events)}, "C09-process-nooutput")
				}
			}
		}
		if !anyRefusal && !failed {
			acceptedPaths++
		}
	}
	// (4) exit status mapping in cmd/kessoku/main.go
	exitOK, err := checkMainExit(c, k.S)
	if err != nil {
		return err
	}
	oblig += 2
	if !exitOK {
		c.Report(map[string]string{"kind": "failure-does-not-exit-nonzero", "harness": "main"}, map[string]any{}, "C09-main-exit")
	}
	// (5) gates through the real CLI
	gate, err := c09Gates(c)
	if err != nil {
		return err
	}
	engineCoverage(c, k.E, "")
	c.Coverage["bounds"] = map[string]any{"cycle_detection_nodes": nCyc, "newgraph_providers_x_types": fmt.Sprint(bounds), "process_files": 2, "outside": "larger graphs; refusals raised inside the parser are reached only through the CLI gates"}
	c.Coverage["explanation"] = fmt.Sprintf("Path-complete bounded execution of the real functions in the symbolic interpreter (forks on fresh nondeterministic inputs; no solver work beyond feasibility): detectCycles on every edge relation over %d nodes (parallel edges: %v) against a transitive-closure reference, incl. 'the diagnostic is a closed walk naming its types'; NewGraph on every declaration with %d providers over %d type tokens (functions with 1-2 results / Struct expansions with 1-2 fields, any requested type) against a reference for duplicate supplier / orphan Struct / reachable cycle; Processor.ProcessFiles on %d files with ParseFile/CreateInjector/os.Create/Generate failing at every position (refusal => no output file created for that file and a non-nil error); main maps an error to exit status 1. Gates through the CLI built from the tree: %d planted-invalid declarations must be refused with exit != 0, output file untouched and the types named; every valid corpus declaration accepted with one function each.", nCyc, par, np, nt, nfiles, gate)
	c.Coverage["obligations"] = oblig
	c.Coverage["evaluations"] = paths
	c.Coverage["distinct_nontrivial"] = refusedPaths + acceptedPaths
	c.Coverage["rule"] = "evaluation = explored path of a harness; distinct_nontrivial = processFiles paths with a refusal + fully accepted ones (each a distinct failure position)"
	c.Coverage["exhaustive"] = true
	c.Assume("types enter NewGraph/detectCycles only through String(): harness token types implement types.Type")
	c.Assume("refusals arising inside the parser (Bind, field extraction, Set flattening) are covered only by the CLI gate, not symbolically (go/types and packages.Load are not executable in the interpreter)")
	if ngReached == 0 {
		return fmt.Errorf("vacuity guard: NewGraph harness never reached its end")
	}
	return nil
}

// checkMainExit runs cmd/kessoku's main with config.Run stubbed.
func checkMainExit(c *Ctx, s *load.Scratch) (bool, error) {
	p, err := load.LoadSSA(s.Repo, true, false, "./cmd/kessoku")
	if err != nil {
		return false, err
	}
	var mainPkg *ssa.Package
	for path, sp := range p.SSA {
		if strings.HasSuffix(path, "/cmd/kessoku") {
			mainPkg = sp
		}
	}
	if mainPkg == nil {
		return false, fmt.Errorf("main package not loaded")
	}
	e := symx.NewEngine(p.Prog)
	e.AllowPkg = allowRepo
	e.EagerInit = func(string) bool { return false }
	symx.InstallMainStubs(e)
	e.ZeroGlobals = map[string]bool{"os.Stderr": true, "os.Stdout": true}
	ok := true
	seenErr, seenOK := false, false
	for _, r := range e.Run(mainPkg.Func("main"), nil, nil) {
		var runErr bool
		exit := -1
		for _, ev := range r.Events {
			if pe, isPE := ev.(symx.ProcEvent); isPE {
				switch pe.Op {
				case "run-error":
					runErr = true
				case "exit":
					exit = pe.N
				}
			}
		}
		if runErr {
			seenErr = true
			if exit <= 0 {
				ok = false
			}
		} else {
			seenOK = true
			if exit > 0 {
				ok = false
			}
		}
	}
	if !seenErr || !seenOK {
		return false, fmt.Errorf("main harness did not cover both outcomes")
	}
	return ok, nil
}

// c09Gates runs planted-invalid declarations through the CLI.
func c09Gates(c *Ctx) (int, error) {
	inv := corpus.FI()
	var progs []*corpus.Program
	for _, i := range inv {
		progs = append(progs, i.Prog)
	}
	valid := append(corpus.F1(3, 1, true, false), corpus.F2(false)...)
	nInv := len(progs)
	progs = append(progs, valid...)
	pipe, err := pipeline.New(c.ID + "-gate")
	if err != nil {
		return 0, err
	}
	defer pipe.Close()
	// a stale output file must survive a refusal untouched
	const sentinel = "// stale output of an earlier run\npackage stale\n"
	pipe.PreWrite = func(it *pipeline.Item) {
		if it.Prog.Family != "FI" {
			return
		}
		for _, f := range it.Prog.SourceFiles() {
			_ = os.WriteFile(filepath.Join(it.Dir, strings.TrimSuffix(f, ".go")+"_band.go"), []byte(sentinel), 0o644)
		}
	}
	pipe.Generate(progs, 16)
	for i, it := range pipe.Items {
		if i < nInv {
			iv := inv[i]
			var finds []string
			if it.CLIErr == nil {
				finds = append(finds, "exit status 0")
			}
			for _, f := range it.Prog.SourceFiles() {
				data, err := os.ReadFile(filepath.Join(it.Dir, strings.TrimSuffix(f, ".go")+"_band.go"))
				if err != nil || !bytes.Equal(data, []byte(sentinel)) {
					finds = append(finds, "output file created or modified")
				}
			}
			for _, n := range iv.Names {
				if !strings.Contains(it.CLIOut, n) {
					finds = append(finds, "diagnostic does not name "+n)
				}
			}
			if len(finds) > 0 {
				sig := map[string]string{"kind": "gate-invalid-not-refused", "what": iv.Kind, "how": strings.Join(finds, "; ")}
				c.Sample(map[string]any{"violation": sig, "program": it.Prog.Desc, "cli_output": lastLines(it.CLIOut, 3)})
				c.Report(sig, map[string]any{"program": it.Prog.Desc, "sources": it.Prog.Emit(nil, nil), "cli_output": it.CLIOut}, "C09-gate-"+corpus.Sanitize(it.Prog.Desc))
			}
			continue
		}
		var finds []string
		if it.CLIErr != nil {
			finds = append(finds, "valid declaration rejected: "+lastLines(it.CLIOut, 2))
		} else {
			for _, d := range it.Prog.Decls {
				n := 0
				for _, src := range it.GenSrc {
					n += strings.Count(src, "\nfunc "+d.Name+"(")
				}
				if n != 1 {
					finds = append(finds, fmt.Sprintf("%d functions named %s generated", n, d.Name))
				}
			}
		}
		if len(finds) > 0 {
			sig := map[string]string{"kind": "gate-valid-not-accepted", "how": finds[0]}
			c.Report(sig, map[string]any{"program": it.Prog.Desc, "sources": it.Prog.Emit(nil, nil), "cli_output": it.CLIOut}, "C09-gate-valid-"+it.Prog.Pkg)
		}
	}
	c.Coverage["gate_invalid_programs"] = nInv
	c.Coverage["gate_valid_programs"] = len(valid)
	return nInv, nil
}
