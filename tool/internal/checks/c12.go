package checks

import (
	"fmt"
	"math/rand"
	"os"
	"strings"

	"kverif/internal/corpus"
	"kverif/internal/symx"
)

func init() { Registry["C12"] = checkC12 }

// checkC12: generated identifiers are always fresh. The real NewVarPool /
// GetName / GetChannel are executed symbolically over operation histories of
// length k with symbolic names; freshness assertions are solver queries.
func checkC12(c *Ctx) error {
	c.Level = "other"
	maxK, maxLen := 3, 4
	if c.Thorough() {
		maxK, maxLen = 4, 5
	} else if c.KernelSolver == "" {
		c.KernelSolver = "race:cvc5"
	}
	if v := os.Getenv("VERIF_MAXK"); v != "" {
		fmt.Sscan(v, &maxK)
	}
	if v := os.Getenv("VERIF_MAXLEN"); v != "" {
		fmt.Sscan(v, &maxLen)
	}
	k, err := NewKernel(c, "internal/kessoku", "kessoku", "kessoku_varpool.go")
	if err != nil {
		return err
	}
	defer k.Close(c)
	symx.InstallKessokuStubs(k.E)
	k.E.MaxSteps = 400000
	fn := k.Pkg.Func("verifHarnessVarPool")
	if fn == nil {
		return fmt.Errorf("harness function missing")
	}
	total := runVarPoolHistories(c, k, fn, maxK, maxLen, nil, "C12")
	// the same obligations one level up: names and done-channel names requested the way the
	// generator requests them (InjectorParam.Name / ChannelName), whatever allocator entry
	// points those use
	// (each awaited value contributes two outputs, so histories are one shorter than above and,
	// in the thorough tier, names stay at length <= 4: the queries of length-8 names over
	// 6 outputs took up to a minute each)
	pk, pLen := maxK-1, maxLen
	if pLen > 4 {
		pLen = 4
	}
	if v := os.Getenv("VERIF_PARAMK"); v != "" {
		fmt.Sscan(v, &pk)
	}
	pt := runVarPoolHistories(c, k, fn, pk, pLen, nil, "C12-param", "verifHarnessParamNames")
	total.obligations += pt.obligations
	total.holds += pt.holds
	total.violated += pt.violated
	total.unknown += pt.unknown
	total.paths += pt.paths
	total.reached += pt.reached
	c.Coverage["param_level_histories"] = map[string]any{"length": pk, "name_length": pLen, "paths": pt.paths, "obligations": pt.obligations}
	// Translator validation: seeded concrete histories through the interpreter
	// and through the native build must give identical outputs.
	if err := validateVarPoolTranslator(c, k); err != nil {
		return err
	}
	// Gate (by-product, never the basis of the claim): adversarially named
	// declarations through the real CLI; generated identifiers read back from
	// go/types scopes.
	gatePipe, items, gerr := runGateCorpus(c, "names", append(corpus.FN(), corpus.FT()...))
	if gerr != nil {
		return gerr
	}
	defer gatePipe.Close()
	gateChecked := 0
	for _, it := range items {
		if it.CLIErr != nil {
			c.Inconclusive(fmt.Sprintf("naming gate: generator rejected %q: %s", it.Prog.Desc, lastLines(it.CLIOut, 2)))
			continue
		}
		gateChecked++
		var finds []string
		if it.Err != nil {
			finds = append(finds, "generated package does not type-check: "+it.Err.Error())
		}
		finds = append(finds, hygieneFindings(it)...)
		if len(finds) > 0 {
			sig := map[string]string{"kind": "gate-name-clash", "program": it.Prog.Desc}
			c.Sample(map[string]any{"violation": sig, "findings": finds})
			c.Report(sig, map[string]any{"findings": finds, "sources": it.Prog.Emit(nil, nil), "generated": it.GenSrc}, "gate-"+corpus.Sanitize(it.Prog.Desc))
		}
	}
	c.Coverage["naming_gate_programs"] = gateChecked
	engineCoverage(c, k.E, "")
	c.Coverage["explanation"] = fmt.Sprintf("Symbolic execution of the real NewVarPool/GetName/GetChannel (go/ssa of internal/kessoku/var_pool.go) over every operation history of length 1..%d, each operation one of {pre-register user identifier, request name, request done-channel}; all names are symbolic ASCII identifiers of length <= %d (solver strings). Obligations per path: outputs pairwise distinct, not a keyword/predeclared identifier, not a pre-registered user name; each is an SMT query pc && !obligation that must be unsat. A sat answer is replayed natively (go test in a scratch copy) before it is reported.", maxK, maxLen)
	c.Coverage["obligations"] = total.obligations
	c.Coverage["discharged"] = total.holds
	c.Coverage["evaluations"] = total.obligations
	c.Coverage["distinct_nontrivial"] = total.paths
	c.Coverage["rule"] = "one evaluation = one solver-discharged obligation; distinct_nontrivial = distinct operation-kind histories (paths) that reached the end of the harness"
	c.Coverage["bounds"] = map[string]any{"history_length": maxK, "name_length": maxLen, "alphabet": "ASCII identifiers", "outside": "longer histories/names, non-ASCII names, getBaseName itself (inputs are constrained to its image)"}
	c.Coverage["reach_witnesses"] = total.reached
	c.Assume("names are ASCII Go identifiers; base names range over the image of getBaseName (first byte lower-case or '_')")
	c.Assume("fmt.Sprintf(\"%s%d\") is modelled as str.++ s (str.from_int n); counters are mathematical integers (no wrap-around reachable with <= 8 requests)")
	c.Assume("map[string]int is modelled as an ordered update log unfolded into ite chains (array theory)")
	if total.reached == 0 {
		return fmt.Errorf("vacuity guard: no path reached the end of the harness")
	}
	if total.unknown > 0 {
		c.Inconclusive(fmt.Sprintf("%d obligations not discharged (solver unknown)", total.unknown))
	}
	return nil
}

type vpTotals struct {
	obligations, holds, violated, unknown, paths, reached, unconfirmed int
}

func runVarPoolHistories(c *Ctx, k *Kernel, fn interface{ String() string }, maxK, maxLen int, hard []string, tag string, harness ...string) vpTotals {
	var t vpTotals
	hname := "verifHarnessVarPool"
	if len(harness) > 0 {
		hname = harness[0]
	}
	f := k.Pkg.Func(hname)
	if f == nil {
		c.Inconclusive("harness function " + hname + " missing")
		return t
	}
	reported := map[string]bool{}
	// A history of length k-1 is a prefix of one of length k and the final
	// assertions range over all outputs, so only the longest length is run.
	for n := maxK; n <= maxK; n++ {
		n := n
		results := k.E.Run(f, func(ps *symx.PathState) []any {
			return []any{symx.IntArg(n), symx.IntArg(maxLen), symx.StringSliceArg(hard)}
		}, nil)
		for _, r := range results {
			if r.Outcome != "ok" {
				if !strings.HasPrefix(r.Outcome, "stopped") {
					c.Inconclusive(fmt.Sprintf("history length %d: path outcome %s", n, r.Outcome))
				}
			}
			for _, rc := range r.Reached {
				if rc == "end" {
					t.reached++
					t.paths++
				}
			}
			for _, a := range r.Asserts {
				t.obligations++
				switch a.Verdict {
				case "holds":
					t.holds++
				case "unknown":
					t.unknown++
				case "violated":
					t.violated++
					script := symx.Script(r.Inputs, a.Model)
					kinds := opKinds(r.Inputs)
					sig := map[string]string{"kind": a.ID, "ops": kinds}
					if hname != "verifHarnessVarPool" {
						sig["harness"] = hname
					}
					key := sigString(sig)
					if reported[key] {
						continue
					}
					if c.MatchKnown(sig) == nil {
						// confirm against the real code before reporting
						hardLit := "nil"
						if len(hard) > 0 {
							hardLit = fmt.Sprintf("%#v", hard)
						}
						out, _ := k.ReplayNative("internal/kessoku", "kessoku", fmt.Sprintf("%s(%d, %d, %s)", hname, n, maxLen, hardLit), script)
						if !strings.Contains(out, "VERIF-ASSERT-FAIL "+a.ID) {
							t.unconfirmed++
							c.Inconclusive(fmt.Sprintf("UNCONFIRMED %s counterexample %v (native replay did not reproduce): %s", a.ID, script, lastLines(out, 5)))
							reported[key] = true
							continue
						}
					}
					reported[key] = true
					c.Sample(map[string]any{"violation": a.ID, "history": script, "ops": kinds})
					c.Report(sig, map[string]any{"harness": hname, "k": n, "maxLen": maxLen, "hard": hard, "script": script, "assert": a.ID}, fmt.Sprintf("%s-%s-%s", tag, a.ID, strings.ReplaceAll(kinds, ",", "")))
				}
			}
		}
		if len(results) > 0 && n == maxK {
			r := results[len(results)-1]
			c.Sample(map[string]any{"history_kinds": opKinds(r.Inputs), "path_condition_terms": len(r.PC), "asserts": len(r.Asserts), "outcome": r.Outcome})
		}
	}
	return t
}

func opKinds(in []symx.Input) string {
	var ks []string
	for _, i := range in {
		if i.Kind == "choice" {
			ks = append(ks, []string{"User", "Name", "Chan"}[i.Choice%3])
		}
	}
	return strings.Join(ks, ",")
}

func lastLines(s string, n int) string {
	ls := strings.Split(strings.TrimSpace(s), "\n")
	if len(ls) > n {
		ls = ls[len(ls)-n:]
	}
	return strings.Join(ls, " | ")
}

func validateVarPoolTranslator(c *Ctx, k *Kernel) error {
	fn := k.Pkg.Func("verifHarnessVarPoolConcrete")
	if fn == nil {
		return fmt.Errorf("concrete harness missing")
	}
	rng := rand.New(rand.NewSource(int64(c.Seed) + 7))
	pool := []string{"foo", "foo0", "fooCh", "fooCh0", "int", "int0", "err", "err0", "ctx", "nil", "a", "a1", "len", "x_", "goto"}
	type hist struct {
		ops   []int
		names []string
	}
	var hs []hist
	for i := 0; i < 40; i++ {
		n := 3 + rng.Intn(6)
		h := hist{}
		for j := 0; j < n; j++ {
			h.ops = append(h.ops, rng.Intn(3))
			h.names = append(h.names, pool[rng.Intn(len(pool))])
		}
		hs = append(hs, h)
	}
	var symOut []string
	for _, h := range hs {
		h := h
		res := k.E.Run(fn, func(ps *symx.PathState) []any {
			ops := make([]any, len(h.ops))
			for i, o := range h.ops {
				ops[i] = o
			}
			return []any{symx.MkSlice(ops...), symx.StringSliceArg(h.names)}
		}, nil)
		if len(res) != 1 || res[0].Outcome != "ok" {
			return fmt.Errorf("translator validation: concrete history did not run to a single ok path (%d paths)", len(res))
		}
		symOut = append(symOut, symx.ValueString(res[0].Ret))
	}
	var call strings.Builder
	call.WriteString("for _, h := range []struct{ops []int; names []string}{")
	for _, h := range hs {
		fmt.Fprintf(&call, "{%#v, %#v},", h.ops, h.names)
	}
	call.WriteString("} { fmt.Println(\"VERIF-OUT\", verifHarnessVarPoolConcrete(h.ops, h.names)) }")
	out, err := k.ReplayNative("internal/kessoku", "kessoku", call.String(), nil)
	var natOut []string
	for _, l := range strings.Split(out, "\n") {
		if i := strings.Index(l, "VERIF-OUT "); i >= 0 {
			natOut = append(natOut, strings.TrimSpace(l[i+len("VERIF-OUT "):]))
		}
	}
	if len(natOut) != len(symOut) {
		return fmt.Errorf("translator validation: native run produced %d of %d outputs (%v): %s", len(natOut), len(symOut), err, lastLines(out, 4))
	}
	mism := 0
	for i := range symOut {
		// interpreter prints slices as [a b c]; so does fmt
		if normSlice(symOut[i]) != normSlice(natOut[i]) {
			mism++
			c.Inconclusive(fmt.Sprintf("translator validation mismatch on history %v %v: interpreter %s, native %s", hs[i].ops, hs[i].names, symOut[i], natOut[i]))
		}
	}
	c.Coverage["traces_validated_against_impl"] = len(symOut) - mism
	c.Coverage["translator_validation_histories"] = len(symOut)
	if mism > 0 {
		return fmt.Errorf("translator validation: %d of %d concrete histories differ between interpreter and native build", mism, len(symOut))
	}
	return nil
}

func normSlice(s string) string {
	return strings.Join(strings.Fields(strings.Trim(strings.TrimSpace(s), "[]")), " ")
}
