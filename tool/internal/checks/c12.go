package checks

import (
	"fmt"
	"os"
	"strings"

	"kverif/internal/corpus"
	"kverif/internal/symx"
)

func init() { Registry["C12"] = checkC12 }

// checkC12: generated identifiers are always fresh. The real NewVarPool /
// GetName / GetChannel are executed symbolically over operation histories of
// length k with symbolic names; freshness assertions are solver queries.
func checkC12(c *Ctx) error {
	c.Level = "other"
	maxK, maxLen := 3, 4
	if c.Thorough() {
		maxK, maxLen = 4, 8
	} else if c.KernelSolver == "" {
		c.KernelSolver = "race:cvc5"
	}
	if v := os.Getenv("VERIF_MAXK"); v != "" {
		fmt.Sscan(v, &maxK)
	}
	if v := os.Getenv("VERIF_MAXLEN"); v != "" {
		fmt.Sscan(v, &maxLen)
	}
	k, err := NewKernel(c, "internal/kessoku", "kessoku", "kessoku_varpool.go")
	if err != nil {
		return err
	}
	defer k.Close(c)
	symx.InstallKessokuStubs(k.E)
	k.E.MaxSteps = 400000
	fn := k.Pkg.Func("verifHarnessVarPool")
	if fn == nil {
		return fmt.Errorf("harness function missing")
	}
	total := runVarPoolHistories(c, k, fn, maxK, maxLen, nil, "C12")
	// Gate (by-product, never the basis of the claim): adversarially named
	// declarations through the real CLI; generated identifiers read back from
	// go/types scopes.
	gatePipe, items, gerr := runGateCorpus(c, "names", corpus.FN())
	if gerr != nil {
		return gerr
	}
	defer gatePipe.Close()
	gateChecked := 0
	for _, it := range items {
		if it.CLIErr != nil {
			c.Inconclusive(fmt.Sprintf("naming gate: generator rejected %q: %s", it.Prog.Desc, lastLines(it.CLIOut, 2)))
			continue
		}
		gateChecked++
		var finds []string
		if it.Err != nil {
			finds = append(finds, "generated package does not type-check: "+it.Err.Error())
		}
		finds = append(finds, hygieneFindings(it)...)
		if len(finds) > 0 {
			sig := map[string]string{"kind": "gate-name-clash", "program": it.Prog.Desc}
			c.Sample(map[string]any{"violation": sig, "findings": finds})
			c.Report(sig, map[string]any{"findings": finds, "sources": it.Prog.Emit(nil, nil), "generated": it.GenSrc}, "gate-"+corpus.Sanitize(it.Prog.Desc))
		}
	}
	c.Coverage["naming_gate_programs"] = gateChecked
	engineCoverage(c, k.E, "")
	c.Coverage["explanation"] = fmt.Sprintf("Symbolic execution of the real NewVarPool/GetName/GetChannel (go/ssa of internal/kessoku/var_pool.go) over every operation history of length 1..%d, each operation one of {pre-register user identifier, request name, request done-channel}; all names are symbolic ASCII identifiers of length <= %d (solver strings). Obligations per path: outputs pairwise distinct, not a keyword/predeclared identifier, not a pre-registered user name; each is an SMT query pc && !obligation that must be unsat. A sat answer is replayed natively (go test in a scratch copy) before it is reported.", maxK, maxLen)
	c.Coverage["obligations"] = total.obligations
	c.Coverage["discharged"] = total.holds
	c.Coverage["evaluations"] = total.obligations
	c.Coverage["distinct_nontrivial"] = total.paths
	c.Coverage["rule"] = "one evaluation = one solver-discharged obligation; distinct_nontrivial = distinct operation-kind histories (paths) that reached the end of the harness"
	c.Coverage["bounds"] = map[string]any{"history_length": maxK, "name_length": maxLen, "alphabet": "ASCII identifiers", "outside": "longer histories/names, non-ASCII names, getBaseName itself (inputs are constrained to its image)"}
	c.Coverage["reach_witnesses"] = total.reached
	c.Assume("names are ASCII Go identifiers; base names range over the image of getBaseName (first byte lower-case or '_')")
	c.Assume("fmt.Sprintf(\"%s%d\") is modelled as str.++ s (str.from_int n); counters are mathematical integers (no wrap-around reachable with <= 8 requests)")
	c.Assume("map[string]int is modelled as an ordered update log unfolded into ite chains (array theory)")
	if total.reached == 0 {
		return fmt.Errorf("vacuity guard: no path reached the end of the harness")
	}
	if total.unknown > 0 {
		c.Inconclusive(fmt.Sprintf("%d obligations not discharged (solver unknown)", total.unknown))
	}
	return nil
}

type vpTotals struct {
	obligations, holds, violated, unknown, paths, reached, unconfirmed int
}

func runVarPoolHistories(c *Ctx, k *Kernel, fn interface{ String() string }, maxK, maxLen int, hard []string, tag string) vpTotals {
	var t vpTotals
	f := k.Pkg.Func("verifHarnessVarPool")
	reported := map[string]bool{}
	// A history of length k-1 is a prefix of one of length k and the final
	// assertions range over all outputs, so only the longest length is run.
	for n := maxK; n <= maxK; n++ {
		n := n
		results := k.E.Run(f, func(ps *symx.PathState) []any {
			return []any{symx.IntArg(n), symx.IntArg(maxLen), symx.StringSliceArg(hard)}
		}, nil)
		for _, r := range results {
			if r.Outcome != "ok" {
				if !strings.HasPrefix(r.Outcome, "stopped") {
					c.Inconclusive(fmt.Sprintf("history length %d: path outcome %s", n, r.Outcome))
				}
			}
			for _, rc := range r.Reached {
				if rc == "end" {
					t.reached++
					t.paths++
				}
			}
			for _, a := range r.Asserts {
				t.obligations++
				switch a.Verdict {
				case "holds":
					t.holds++
				case "unknown":
					t.unknown++
				case "violated":
					t.violated++
					script := symx.Script(r.Inputs, a.Model)
					kinds := opKinds(r.Inputs)
					sig := map[string]string{"kind": a.ID, "ops": kinds}
					key := sigString(sig)
					if reported[key] {
						continue
					}
					if c.MatchKnown(sig) == nil {
						// confirm against the real code before reporting
						hardLit := "nil"
						if len(hard) > 0 {
							hardLit = fmt.Sprintf("%#v", hard)
						}
						out, _ := k.ReplayNative("internal/kessoku", "kessoku", fmt.Sprintf("verifHarnessVarPool(%d, %d, %s)", n, maxLen, hardLit), script)
						if !strings.Contains(out, "VERIF-ASSERT-FAIL "+a.ID) {
							t.unconfirmed++
							c.Inconclusive(fmt.Sprintf("UNCONFIRMED %s counterexample %v (native replay did not reproduce): %s", a.ID, script, lastLines(out, 5)))
							reported[key] = true
							continue
						}
					}
					reported[key] = true
					c.Sample(map[string]any{"violation": a.ID, "history": script, "ops": kinds})
					c.Report(sig, map[string]any{"harness": "verifHarnessVarPool", "k": n, "maxLen": maxLen, "hard": hard, "script": script, "assert": a.ID}, fmt.Sprintf("%s-%s-%s", tag, a.ID, strings.ReplaceAll(kinds, ",", "")))
				}
			}
		}
		if len(results) > 0 && n == maxK {
			r := results[len(results)-1]
			c.Sample(map[string]any{"history_kinds": opKinds(r.Inputs), "path_condition_terms": len(r.PC), "asserts": len(r.Asserts), "outcome": r.Outcome})
		}
	}
	return t
}

func opKinds(in []symx.Input) string {
	var ks []string
	for _, i := range in {
		if i.Kind == "choice" {
			ks = append(ks, []string{"User", "Name", "Chan"}[i.Choice%3])
		}
	}
	return strings.Join(ks, ",")
}

func lastLines(s string, n int) string {
	ls := strings.Split(strings.TrimSpace(s), "\n")
	if len(ls) > n {
		ls = ls[len(ls)-n:]
	}
	return strings.Join(ls, " | ")
}
