package checks

import (
	"fmt"

	"kverif/internal/smt"
)

func init() { Registry["C03"] = checkC03 }

// checkC03: on success (no provider fails, caller never cancels) the injector
// returns under every interleaving, never closes a channel twice and has
// joined every goroutine when it returns.
func checkC03(c *Ctx) error {
	c.Level = "model_checking"
	progs := corpusFor(c)
	var queries, vacuous int
	st, err := forEachInjector(c, progs, func(ic *InjCase) {
		e := ic.Enc
		nf, nc := e.NoFailTerm(), e.NoCancelTerm()
		// vacuity: the all-success execution exists
		v, _ := ic.Query(false, nf, nc, e.Returned(0))
		c.mu.Lock()
		queries++
		c.mu.Unlock()
		if v != smt.Sat {
			c.mu.Lock()
			vacuous++
			c.mu.Unlock()
			if v == smt.Unknown {
				c.Inconclusive("success-execution query unknown for " + ic.Name())
			}
		}
		// (a) deadlock / unanswered wait
		v, m := ic.Query(true, nf, nc, e.PsiTerm(), smt.Not(e.Returned(0)))
		c.mu.Lock()
		queries++
		c.mu.Unlock()
		switch v {
		case smt.Sat:
			sig := map[string]string{"kind": "deadlock", "blocked": blockedSummary(ic, m)}
			ic.report(sig, m, "deadlock")
		case smt.Unknown:
			c.Inconclusive("deadlock query unknown for " + ic.Name())
		}
		// (b) double close
		for ch, ks := range e.Closes {
			for i := range ks {
				for j := i + 1; j < len(ks); j++ {
					v, m := ic.Query(true, nf, nc, ks[i].X, ks[j].X)
					c.mu.Lock()
					queries++
					c.mu.Unlock()
					if v == smt.Sat {
						ic.report(map[string]string{"kind": "double-close", "chan-closed-by": ks[i].Ev.Site + "+" + ks[j].Ev.Site}, m, "double-close-"+ch)
					}
				}
			}
		}
		// (d) join: every started goroutine has returned when the injector returns
		for _, r := range e.Returns {
			var unj []string
			for g := 1; g < e.Threads; g++ {
				unj = append(unj, fmt.Sprintf("(and %s (not %s))", spawnedBeforeT(ic, g, r.C), retBeforeT(ic, g, r.C)))
			}
			if len(unj) == 0 {
				continue
			}
			v, m := ic.Query(true, nf, nc, r.X, smt.Or(unj...))
			c.mu.Lock()
			queries++
			c.mu.Unlock()
			if v == smt.Sat {
				ic.report(map[string]string{"kind": "unjoined-goroutine", "return-site": r.Ev.Site}, m, "unjoined")
			} else if v == smt.Unknown {
				c.Inconclusive("join query unknown for " + ic.Name())
			}
		}
		if len(ic.Prog.Threads) > 1 {
			c.Sample(map[string]any{"injector": ic.Name(), "threads": len(ic.Prog.Threads), "events": len(e.Nodes), "generated": ic.Item.GenSrc})
		}
	})
	if err != nil {
		return err
	}
	injectorCoverage(c, st, queries)
	c.Coverage["success_execution_infeasible"] = vacuous
	if vacuous > 0 && c.Violations == 0 && len(c.Known) == 0 {
		return fmt.Errorf("vacuity guard: %d injectors admit no all-success execution in the encoding", vacuous)
	}
	return nil
}

func spawnedBeforeT(ic *InjCase, g int, t string) string {
	var ts []string
	for _, s := range ic.Enc.Spawns[g] {
		ts = append(ts, "(and "+s.X+" (< "+s.C+" "+t+"))")
	}
	return smt.Or(ts...)
}

func retBeforeT(ic *InjCase, g int, t string) string {
	var ts []string
	for _, s := range ic.Enc.Rets[g] {
		ts = append(ts, "(and "+s.X+" (< "+s.C+" "+t+"))")
	}
	return smt.Or(ts...)
}
