package checks

import (
	"fmt"

	"kverif/internal/replay"
	"kverif/internal/smt"
)

func init() { Registry["C03"] = checkC03 }

// checkC03: on success (no provider fails, caller never cancels) the injector
// returns under every interleaving, never closes a channel twice and has
// joined every goroutine when it returns.
func checkC03(c *Ctx) error {
	c.Level = "model_checking"
	progs := corpusFor(c)
	var queries, vacuous int
	st, err := forEachInjector(c, progs, func(ic *InjCase) {
		e := ic.Enc
		nf, nc := e.NoFailTerm(), e.NoCancelTerm()
		// vacuity: the all-success execution exists
		v, okModel := ic.Query(c.Thorough() && len(ic.Prog.Threads) > 1, nf, nc, e.Returned(0))
		if v == smt.Sat && okModel != nil {
			validateModel(ic, okModel, nf, nc)
		}
		c.mu.Lock()
		queries++
		c.mu.Unlock()
		if v != smt.Sat {
			c.mu.Lock()
			vacuous++
			c.mu.Unlock()
			if v == smt.Unknown {
				c.Inconclusive("success-execution query unknown for " + ic.Name())
			}
		}
		// (a) deadlock / unanswered wait
		v, m := ic.Query(true, nf, nc, e.PsiTerm(), smt.Not(e.Returned(0)))
		c.mu.Lock()
		queries++
		c.mu.Unlock()
		switch v {
		case smt.Sat:
			sig := map[string]string{"kind": "deadlock", "blocked": blockedSummary(ic, m)}
			ic.report(sig, m, "deadlock")
		case smt.Unknown:
			c.Inconclusive("deadlock query unknown for " + ic.Name())
		}
		// (b) double close
		for ch, ks := range e.Closes {
			for i := range ks {
				for j := i + 1; j < len(ks); j++ {
					v, m := ic.Query(true, nf, nc, ks[i].X, ks[j].X)
					c.mu.Lock()
					queries++
					c.mu.Unlock()
					if v == smt.Sat {
						ic.report(map[string]string{"kind": "double-close", "chan-closed-by": ks[i].Ev.Site + "+" + ks[j].Ev.Site}, m, "double-close-"+ch)
					}
				}
			}
		}
		// (d) join: every started goroutine has returned when the injector returns
		for _, r := range e.Returns {
			var unj []string
			for g := 1; g < e.Threads; g++ {
				unj = append(unj, fmt.Sprintf("(and %s (not %s))", spawnedBeforeT(ic, g, r.C), retBeforeT(ic, g, r.C)))
			}
			if len(unj) == 0 {
				continue
			}
			v, m := ic.Query(true, nf, nc, r.X, smt.Or(unj...))
			c.mu.Lock()
			queries++
			c.mu.Unlock()
			if v == smt.Sat {
				ic.report(map[string]string{"kind": "unjoined-goroutine", "return-site": r.Ev.Site}, m, "unjoined")
			} else if v == smt.Unknown {
				c.Inconclusive("join query unknown for " + ic.Name())
			}
		}
		if len(ic.Prog.Threads) > 1 {
			c.Sample(map[string]any{"injector": ic.Name(), "threads": len(ic.Prog.Threads), "events": len(e.Nodes), "generated": ic.Item.GenSrc})
		}
	})
	if err != nil {
		return err
	}
	injectorCoverage(c, st, queries)
	c.Coverage["success_execution_infeasible"] = vacuous
	if c.Thorough() {
		c.Coverage["model_validation"] = map[string]any{"injectors": st.validated, "solver_schedule_realised_natively": st.modelInReality, "native_order_feasible_in_model": st.realityInModel, "failures": st.validationFail}
		c.Coverage["traces_validated_against_impl"] = st.replayOK + st.modelInReality
		if len(st.validationFail) > 0 {
			return fmt.Errorf("translator validation failed: %s", st.validationFail[0])
		}
	}
	if vacuous > 0 && c.Violations == 0 && len(c.Known) == 0 {
		return fmt.Errorf("vacuity guard: %d injectors admit no all-success execution in the encoding", vacuous)
	}
	return nil
}

func spawnedBeforeT(ic *InjCase, g int, t string) string {
	var ts []string
	for _, s := range ic.Enc.Spawns[g] {
		ts = append(ts, "(and "+s.X+" (< "+s.C+" "+t+"))")
	}
	return smt.Or(ts...)
}

func retBeforeT(ic *InjCase, g int, t string) string {
	var ts []string
	for _, s := range ic.Enc.Rets[g] {
		ts = append(ts, "(and "+s.X+" (< "+s.C+" "+t+"))")
	}
	return smt.Or(ts...)
}

// validateModel keeps the concurrency stubs honest (thorough tier, a sample of
// injectors): (model ⊆ reality) a complete success execution produced by the
// solver is replayed on the real generated code and must be realisable and
// return the reference value; (reality ⊆ model) the provider enter/exit order
// observed in that native run is asserted into Φ and must be satisfiable.
func validateModel(ic *InjCase, m map[string]string, nf, nc string) {
	st := ic.st
	st.mu.Lock()
	st.validationSeen++
	take := st.validationSeen%37 == 1 && st.validated < 16
	if take {
		st.validated++
	}
	st.mu.Unlock()
	if !take || !ic.Ref.Valid {
		return
	}
	sc := scriptFromModel(ic, m, 0)
	rep := replay.Run(ic.pipe, ic.Item, ic.Decl, sc)
	if rep.Err != nil || len(rep.Observations) == 0 {
		ic.c.Inconclusive("model validation: replay failed for " + ic.Name())
		return
	}
	o := rep.Observations[0]
	okRun := o.Realised && o.Returned && (o.Err == "nil" || o.Err == "none") && o.ValueID == nativeID(ic.Ref.Result) && !rep.Race
	// reality ⊆ model: observed order of enter/exit events
	var order []string
	pos := map[string]string{}
	for _, en := range ic.Enc.Enters {
		if ex := ic.Enc.Exits[en.Ev.Key]; ex != nil {
			pos["enter "+en.Ev.Prov] = en.C
			pos["exit "+en.Ev.Prov] = ex.C
		}
	}
	prev := ""
	for _, l := range o.Log {
		cvar, ok := pos[l]
		if !ok {
			continue
		}
		if prev != "" {
			order = append(order, "(< "+prev+" "+cvar+")")
		}
		prev = cvar
	}
	v, _ := ic.Query(false, append([]string{nf, nc, ic.Enc.Returned(0)}, order...)...)
	st.mu.Lock()
	defer st.mu.Unlock()
	if okRun {
		st.modelInReality++
	} else {
		st.validationFail = append(st.validationFail, fmt.Sprintf("%s: solver's success schedule not realised natively (%+v)", ic.Name(), o))
	}
	if v == smt.Sat {
		st.realityInModel++
	} else {
		st.validationFail = append(st.validationFail, fmt.Sprintf("%s: natively observed order %v is infeasible in the model (%s)", ic.Name(), o.Log, v))
	}
}
