package checks

import (
	"crypto/sha256"
	"fmt"
	"os"
	"os/exec"
	"os/user"
	"path/filepath"
	"sort"
	"strings"
	"time"

	"kverif/internal/load"
)

// c16NativeCase is one concrete installation scenario pushed through the real CLI.
type c16NativeCase struct {
	agent, skill, sub string // sub: documented base below root (project or user)
	user              bool
	customKind        int    // 0 none, 1 absolute --path, 2 relative --path, 3 --path starting with a literal ~/
	baseState         int    // as in the symbolic loop: 0 absent, 1 dir, 2 file, 4..6 prior installation
	umask             string // "" (inherited, 022) or an octal umask the installer process runs under
	xdg               bool   // XDG_*_HOME set to directories unrelated to $HOME
}

// snapshotTree lists every entry under root as "path mode sha" (directories: "path/ mode").
func snapshotTree(root string) []string {
	var out []string
	_ = filepath.Walk(root, func(p string, info os.FileInfo, err error) error {
		if err != nil {
			return nil
		}
		rel, _ := filepath.Rel(root, p)
		if info.IsDir() {
			out = append(out, rel+"/")
			return nil
		}
		data, _ := os.ReadFile(p)
		h := sha256.Sum256(data)
		out = append(out, fmt.Sprintf("%s %o %x", rel, info.Mode().Perm(), h[:8]))
		return nil
	})
	sort.Strings(out)
	return out
}

// runC16Native builds the CLI of the scratch copy and runs `kessoku llm-setup <agent>`
// in a private HOME / working directory for every case; the outcome is compared with
// the documented expectation (the same one the symbolic check uses). Returns the
// number of cases run. It is both an independent oracle on concrete inputs and the
// validation of the filesystem/path stubs: the symbolic run claims the same outcome
// for every HOME / cwd / --path, so a disagreement on one concrete instance means
// either the code or the stubs are wrong.
func runC16Native(c *Ctx, repo, scratch, srcRoot string, tree *embTree, cases []c16NativeCase, violation func(sig map[string]string, art map[string]any)) (int, error) {
	cli := filepath.Join(scratch, "kessoku-c16")
	if out, err := load.Run(repo, true, 5*time.Minute, nil, "go", "build", "-o", cli, "./cmd/kessoku"); err != nil {
		return 0, fmt.Errorf("build CLI: %v: %s", err, out)
	}
	defer os.Remove(cli)
	ran := 0
	for i, cs := range cases {
		root := filepath.Join(scratch, fmt.Sprintf("c16n-%d", i))
		home, work := filepath.Join(root, "home", "u"), filepath.Join(root, "work", "proj")
		if err := os.MkdirAll(home, 0o755); err != nil {
			return ran, err
		}
		if err := os.MkdirAll(work, 0o755); err != nil {
			return ran, err
		}
		var base, tildeName, stray string
		args := []string{"llm-setup", cs.agent}
		switch cs.customKind {
		case 1:
			base = filepath.Join(root, "elsewhere", "custom dir")
			args = append(args, "--path", base)
		case 2:
			base = filepath.Join(work, "rel", "dir")
			args = append(args, "--path", "rel/dir")
		case 3:
			// literal tilde: the custom path as given is the relative path "~/<name>"; an
			// installer that expands the tilde itself may only mean $HOME. Anything else
			// (the passwd home of the account, say) is nowhere documented.
			tildeName = fmt.Sprintf("kverif c16 tilde %d-%d", os.Getpid(), i)
			base = filepath.Join(work, "~", tildeName)
			args = append(args, "--path", "~/"+tildeName)
			if u, err := user.Current(); err == nil && u.HomeDir != "" {
				stray = filepath.Join(u.HomeDir, tildeName)
				if _, err := os.Lstat(stray); err == nil {
					stray = "" // not ours
				}
			}
		default:
			if cs.user {
				base = filepath.Join(home, cs.sub)
			} else {
				base = filepath.Join(work, cs.sub)
			}
		}
		if cs.user {
			args = append(args, "--user")
		}
		expSkill := filepath.Join(base, cs.skill)
		switch {
		case cs.baseState == 1:
			_ = os.MkdirAll(base, 0o755)
		case cs.baseState == 2:
			_ = os.MkdirAll(filepath.Dir(base), 0o755)
			_ = os.WriteFile(base, []byte("a file"), 0o644)
		case cs.baseState >= 4:
			for _, rel := range tree.rel {
				data, _ := os.ReadFile(filepath.Join(srcRoot, "skills/kessoku-di", rel))
				dst := filepath.Join(expSkill, rel)
				_ = os.MkdirAll(filepath.Dir(dst), 0o755)
				switch cs.baseState {
				case 4:
					_ = os.WriteFile(dst, data, 0o600)
					_ = os.Chmod(dst, 0o600)
				case 5:
					_ = os.WriteFile(dst, append([]byte("old "), data...), 0o644)
				case 6:
					_ = os.WriteFile(dst, data, 0o444)
					_ = os.Chmod(dst, 0o444)
				}
			}
		}
		before := snapshotTree(root)
		cmd := exec.Command(cli, args...)
		if cs.umask != "" {
			cmd = exec.Command("sh", append([]string{"-c", "umask " + cs.umask + "; exec \"$0\" \"$@\"", cli}, args...)...)
		}
		cmd.Dir = work
		cmd.Env = []string{"HOME=" + home, "PATH=/usr/bin:/bin", "PWD=" + work}
		if cs.xdg {
			// a user who relocated the XDG base directories: the documented locations do not
			// mention them, so they must have no influence
			for _, v := range []string{"CONFIG", "DATA", "STATE", "CACHE"} {
				cmd.Env = append(cmd.Env, "XDG_"+v+"_HOME="+filepath.Join(root, "xdg", strings.ToLower(v)))
			}
		}
		outB, runErr := cmd.CombinedOutput()
		out := string(outB)
		if stray != "" {
			if _, err := os.Lstat(stray); err == nil {
				_ = os.RemoveAll(stray) // a tilde expanded to the real account's home: clean up, reported below
			}
		}
		if tildeName != "" {
			if alt := filepath.Join(home, tildeName, cs.skill); strings.Contains(out, "Skills installed to: "+alt+"\n") {
				expSkill = alt
			}
		}
		after := snapshotTree(root)
		ran++
		caseName := fmt.Sprintf("native custom-kind=%d user=%v base-state=%d", cs.customKind, cs.user, cs.baseState)
		if cs.umask != "" {
			caseName += " umask=" + cs.umask
		}
		if cs.xdg {
			caseName += " XDG_*_HOME set"
		}
		art := map[string]any{"args": args, "cwd": "<root>/work/proj", "home": "<root>/home/u", "output": strings.ReplaceAll(out, root, "<root>"), "after": after}
		if cs.baseState == 2 {
			if runErr == nil {
				violation(map[string]string{"kind": "unusable base accepted", "agent": cs.agent, "case": caseName}, art)
			}
			if strings.Join(before, "\n") != strings.Join(after, "\n") {
				violation(map[string]string{"kind": "filesystem modified although base is unusable", "agent": cs.agent, "case": caseName}, art)
			}
			_ = os.RemoveAll(root)
			continue
		}
		if runErr != nil {
			violation(map[string]string{"kind": "installation fails", "agent": cs.agent, "case": caseName}, art)
			_ = os.RemoveAll(root)
			continue
		}
		if !strings.Contains(out, "Skills installed to: "+expSkill+"\n") {
			art["expected"] = strings.ReplaceAll(expSkill, root, "<root>")
			violation(map[string]string{"kind": "wrong installation directory", "agent": cs.agent, "case": caseName}, art)
		}
		// expected tree: exactly the embedded files below expSkill, each 0644, plus their ancestors
		want := map[string]bool{}
		relSkill, _ := filepath.Rel(root, expSkill)
		for _, rel := range tree.rel {
			want[fmt.Sprintf("%s %o %s", filepath.Join(relSkill, rel), 0o644, tree.hash[rel])] = true
		}
		bad := false
		for _, e := range after {
			if strings.HasSuffix(e, "/") {
				continue
			}
			if !want[e] {
				bad = true
				art["unexpected_entry"] = e
			}
			delete(want, e)
		}
		if bad || len(want) > 0 {
			var missing []string
			for w := range want {
				missing = append(missing, w)
			}
			sort.Strings(missing)
			art["missing_or_different"] = missing
			violation(map[string]string{"kind": "installed tree differs", "agent": cs.agent, "case": caseName}, art)
		}
		// directories: only ancestors of installed files or pre-existing ones
		pre := map[string]bool{}
		for _, e := range before {
			pre[e] = true
		}
		for _, e := range after {
			if !strings.HasSuffix(e, "/") || pre[e] {
				continue
			}
			d := strings.TrimSuffix(e, "/")
			if !(strings.HasPrefix(relSkill+"/", d+"/") || strings.HasPrefix(d+"/", relSkill+"/")) {
				art["directory"] = d
				violation(map[string]string{"kind": "write outside the skill directory", "agent": cs.agent, "case": caseName, "op": "mkdir"}, art)
			}
		}
		_ = os.RemoveAll(root)
	}
	return ran, nil
}
