package checks

import (
	"fmt"
	"go/format"
	"os"
	"path/filepath"
	"strings"

	"kverif/internal/pipeline"
	"kverif/internal/symx"
	"kverif/internal/wirecorp"
)

func init() { Registry["C14"] = checkC14 }

// checkC14: migration output is well-formed, minimal and deterministic.
func checkC14(c *Ctx) error {
	c.Level = "other"
	if !c.Thorough() {
		c.KernelSolver = "race:cvc5"
	}
	k, err := NewKernel(c, "internal/migrate", "migrate", "migrate_typeconv.go")
	if err != nil {
		return err
	}
	defer k.Close(c)
	k.E.MaxSteps = 1_000_000
	seen := map[string]bool{}
	var oblig, paths int
	report := func(sig map[string]string, art map[string]any, name string) {
		if seen[sigString(sig)] {
			return
		}
		seen[sigString(sig)] = true
		c.Sample(map[string]any{"violation": sig, "detail": art})
		c.Report(sig, art, name)
	}
	// (1) alias allocator
	kk, maxLen := 3, 3
	if c.Thorough() {
		kk, maxLen = 4, 5
	}
	fn := k.Pkg.Func("verifHarnessAddImport")
	if fn == nil {
		return fmt.Errorf("harness missing")
	}
	reach := 0
	for _, r := range k.E.Run(fn, func(ps *symx.PathState) []any { return []any{symx.IntArg(kk), symx.IntArg(maxLen)} }, nil) {
		paths++
		if !strings.HasPrefix(r.Outcome, "ok") && !strings.HasPrefix(r.Outcome, "stopped") {
			c.Inconclusive("AddImport harness: path outcome " + r.Outcome)
		}
		for _, rc := range r.Reached {
			if rc == "end" {
				reach++
			}
		}
		for _, a := range r.Asserts {
			oblig++
			switch a.Verdict {
			case "violated":
				script := symx.Script(r.Inputs, a.Model)
				sig := map[string]string{"kind": a.ID, "harness": "AddImport"}
				if !seen[sigString(sig)] {
					out, _ := k.ReplayNative("internal/migrate", "migrate", fmt.Sprintf("verifHarnessAddImport(%d, %d)", kk, maxLen), script)
					if !strings.Contains(out, "VERIF-ASSERT-FAIL "+a.ID) {
						c.Inconclusive(fmt.Sprintf("UNCONFIRMED AddImport counterexample %v: %s", script, lastLines(out, 3)))
						seen[sigString(sig)] = true
						continue
					}
				}
				report(sig, map[string]any{"harness": "verifHarnessAddImport", "k": kk, "script": script}, "C14-alias-"+a.ID)
			case "unknown":
				c.Inconclusive("AddImport harness: obligation " + a.ID + " unknown")
			}
		}
	}
	if reach == 0 {
		return fmt.Errorf("vacuity guard: AddImport harness never reached its end")
	}
	c.Coverage["alias_histories"] = reach
	// (2) import table iteration order
	fnO := k.Pkg.Func("verifHarnessImportsOrder")
	for _, r := range k.E.Run(fnO, func(ps *symx.PathState) []any { return []any{symx.IntArg(3)} }, nil) {
		paths++
		if !strings.HasPrefix(r.Outcome, "ok") {
			c.Inconclusive("imports order harness: path outcome " + r.Outcome)
		}
		for _, a := range r.Asserts {
			oblig++
			if a.Verdict == "violated" {
				report(map[string]string{"kind": a.ID, "harness": "Imports/buildImportDecl"}, map[string]any{}, "C14-"+a.ID)
			}
		}
	}
	// (2b) failure points of Migrator.MigrateFiles
	{
		symx.InstallMigrateStubs(k.E)
		symx.InstallSyncStubs(k.E)
		fnM := k.Pkg.Func("verifHarnessMigrateFiles")
		mres := k.E.Run(fnM, nil, nil)
		failing, succeeding := 0, 0
		for _, r := range mres {
			paths++
			if !strings.HasPrefix(r.Outcome, "ok") {
				c.Inconclusive("MigrateFiles harness: path outcome " + r.Outcome)
				continue
			}
			failed := !symx.IsNilIface(r.Ret)
			writes, refusal := 0, false
			for _, ev := range r.Events {
				if pe, ok := ev.(symx.ProcEvent); ok {
					switch pe.Op {
					case "os.WriteFile":
						writes++
					case "load-error", "package-error", "transform-error", "format-error", "os.WriteFile-error":
						refusal = true
					}
				}
			}
			oblig += 2
			if failed {
				failing++
			} else {
				succeeding++
			}
			if failed && writes > 0 {
				report(map[string]string{"kind": "output-written-although-migration-failed", "harness": "MigrateFiles"}, map[string]any{"events": fmt.Sprint(r.Events)}, "C14-migratefiles-written")
			}
			if refusal && !failed {
				// a package error only counts if the loop reached that package before another error ended the run
				report(map[string]string{"kind": "failure-not-reported", "harness": "MigrateFiles"}, map[string]any{"events": fmt.Sprint(r.Events)}, "C14-migratefiles-silent")
			}
			if writes > 1 {
				report(map[string]string{"kind": "several-output-files", "harness": "MigrateFiles"}, map[string]any{"events": fmt.Sprint(r.Events)}, "C14-migratefiles-multi")
			}
		}
		c.Coverage["migratefiles_paths"] = len(mres)
		c.Coverage["migratefiles_failing_paths"] = failing
		c.Coverage["migratefiles_succeeding_paths"] = succeeding
		if failing == 0 || succeeding == 0 {
			c.Inconclusive(fmt.Sprintf("MigrateFiles harness covered failing=%d succeeding=%d paths", failing, succeeding))
		}
	}
	// (3) gates on the wire corpus
	pipe, err := pipeline.NewWire(c.ID)
	if err != nil {
		return err
	}
	defer pipe.Close()
	cfgs := wirecorp.All(pipe.S.Repo, c.Thorough())
	cfgs = append(cfgs, wirecorp.Invalid()...)
	pipe.Run(cfgs, 12, false)
	ld, err := pipe.NewLoader()
	if err != nil {
		return err
	}
	valid, invalid, compiled := 0, 0, 0
	for _, it := range pipe.Items {
		cfg := it.Cfg
		if cfg.Invalid != "" {
			invalid++
			oblig += 2
			var finds []string
			if it.MigrateErr == nil {
				finds = append(finds, "exit status 0")
			}
			if it.OutputExist {
				finds = append(finds, "output file written")
			}
			if len(finds) > 0 {
				report(map[string]string{"kind": "gate-invalid-input-not-refused", "input": cfg.Invalid, "how": strings.Join(finds, "; ")},
					map[string]any{"config": cfg.Desc, "files": cfg.Files, "output": lastLines(it.MigrateOut, 4)}, "C14-invalid-"+cfg.Name)
			}
			continue
		}
		if it.MigrateErr != nil || !it.OutputExist {
			// not every testdata input is migratable (e.g. no patterns): exit 0 without output is fine
			if it.MigrateErr != nil {
				c.Coverage["migrate_rejected_"+cfg.Name] = cfg.Desc + ": " + lastLines(it.MigrateOut, 2)
			}
			continue
		}
		valid++
		var finds []string
		oblig += 4
		if it.Migrated2 != it.Migrated {
			finds = append(finds, "second run differs")
		}
		if it.ThirdRun && it.Migrated3 != it.Migrated {
			finds = append(finds, "run over a longer stale output file differs")
		}
		if formatted, err := format.Source([]byte(it.Migrated)); err != nil || string(formatted) != it.Migrated {
			finds = append(finds, "not gofmt-stable")
		}
		// compiles in the source package once the wire files are set aside (generated injectors removed too)
		_ = os.Remove(filepath.Join(it.DirB, "kessoku_band.go"))
		if cfg.Separable() {
			compiled++
			res := ld.LoadDir(it.DirB, "verifwire/b_"+cfg.Name, false)
			if res.Err != nil {
				finds = append(finds, "does not compile: "+res.Err.Error())
			}
		}
		// each set declared once under its original name
		for _, set := range setNames(cfg) {
			if n := strings.Count(it.Migrated, "\nvar "+set+" = kessoku.Set("); n != 1 {
				finds = append(finds, fmt.Sprintf("set %s declared %d times", set, n))
			}
		}
		if len(finds) > 0 {
			report(map[string]string{"kind": "gate-output-malformed", "how": classify(finds[0])},
				map[string]any{"config": cfg.Desc, "findings": finds, "files": cfg.Files, "migrated": it.Migrated, "migrated_over_stale_file": it.Migrated3, "second_run": it.Migrated2}, "C14-gate-"+cfg.Name)
		}
	}
	engineCoverage(c, k.E, "")
	c.Coverage["bounds"] = map[string]any{"alias_history_length": kk, "name_length": maxLen, "migratefiles": "<= 2 packages x <= 2 files, every failure position", "gates": "wire corpus W1-W3 and invalid inputs WI", "outside": "longer histories, other inputs"}
	c.Coverage["explanation"] = fmt.Sprintf("Alias allocator: symbolic execution of the real TypeConverter.AddImport over every history of %d calls with symbolic paths and desired names (length <= %d): same path => same alias, distinct paths => distinct aliases, recorded alias = returned alias (SMT strings; counterexamples replayed natively). Import table: Imports()+buildImportDecl under every map iteration order. Gates through the CLI on %d wire configurations (DAG family, construct family, the repository's migrate testdata): migrated file byte-identical on a second run, gofmt-stable, type-checks in the source package with the wire files set aside (unused/missing imports are type errors), each set declared once; %d invalid inputs (syntax error, type error, duplicate set name, missing constructor) must exit non-zero and write nothing.", kk, maxLen, valid, invalid)
	c.Coverage["obligations"] = oblig
	c.Coverage["evaluations"] = paths + valid + invalid
	c.Coverage["distinct_nontrivial"] = reach
	c.Coverage["rule"] = "evaluation = harness path or gated configuration; distinct_nontrivial = alias histories that reached the end"
	c.Coverage["gate_valid_configs"] = valid
	c.Coverage["gate_invalid_configs"] = invalid
	c.Coverage["gate_compiled_configs"] = compiled
	c.Assume("'imports exactly what it uses' and 'compiles' are checked per enumerated configuration by go/types, not as universal statements")
	return nil
}

func classify(f string) string {
	if i := strings.Index(f, ":"); i > 0 {
		return f[:i]
	}
	return f
}

// setNames returns the names of the wire.NewSet variables of a configuration.
func setNames(cfg *wirecorp.Config) []string {
	var out []string
	for _, src := range cfg.Files {
		if !wirecorp.IsWireFile(src) {
			continue
		}
		for _, l := range strings.Split(src, "\n") {
			l = strings.TrimSpace(l)
			if strings.HasPrefix(l, "var ") && strings.Contains(l, "wire.NewSet(") {
				name := strings.TrimSpace(strings.TrimPrefix(l, "var "))
				if i := strings.IndexAny(name, " ="); i > 0 {
					out = append(out, name[:i])
				}
			}
		}
	}
	return out
}
