package checks

import (
	"fmt"

	"kverif/internal/smt"
)

func init() { Registry["C01"] = checkC01 }

// checkC01: in every execution a shared variable carrying a provided value is
// written before it is read and every conflicting pair of accesses is ordered
// by synchronisation (no data race); hence a provider is entered only after the
// producers of its inputs returned and receives exactly their values.
func checkC01(c *Ctx) error {
	c.Level = "model_checking"
	progs := corpusFor(c)
	var queries, pairs int
	st, err := forEachInjector(c, progs, func(ic *InjCase) {
		e := ic.Enc
		// quick: the property's own quantifier (no failure, no cancellation);
		// thorough: failures and cancellation instants free as well.
		var env []string
		if !c.Thorough() {
			env = []string{e.NoFailTerm(), e.NoCancelTerm()}
		}
		q := func(extra ...string) (smt.Verdict, map[string]string) {
			c.mu.Lock()
			queries++
			c.mu.Unlock()
			return ic.Query(true, append(append([]string{}, env...), extra...)...)
		}
		for _, cell := range ic.Prog.Cells {
			ws, rs := e.Writes[cell], e.Reads[cell]
			for _, r := range rs {
				// thorough tier leaves the final read of the result to C07
				// (a result returned unwritten after cancellation is C07's finding)
				if c.Thorough() && r.Thread == 0 && feedsReturnOnly(ic, r) {
					continue
				}
				// (i) read before any write
				var none []string
				for _, w := range ws {
					none = append(none, fmt.Sprintf("(not (and %s (< %s %s)))", w.X, w.C, r.C))
				}
				v, m := q(r.X, smt.And(none...))
				if v == smt.Sat {
					ic.report(map[string]string{"kind": "read-before-write", "reader": consumerOf(ic, r), "thread": threadKind(r.Thread)}, m, "rbw-"+cell)
					continue
				} else if v == smt.Unknown {
					c.Inconclusive("read-before-write query unknown for " + ic.Name())
				}
				// (ii) every write is ordered before the read in every execution
				for _, w := range ws {
					c.mu.Lock()
					pairs++
					c.mu.Unlock()
					v, m := q(r.X, w.X, fmt.Sprintf("(not (< %s %s))", w.C, r.C))
					if v == smt.Sat {
						ic.report(map[string]string{"kind": "race", "reader": consumerOf(ic, r), "threads": threadKind(w.Thread) + "/" + threadKind(r.Thread)}, m, "race-"+cell)
						break
					}
				}
			}
			// (iii) write/write pairs are ordered one way in every execution
			for i := range ws {
				for j := i + 1; j < len(ws); j++ {
					a, b := ws[i], ws[j]
					if a.Thread == b.Thread {
						continue
					}
					v1, _ := q(a.X, b.X, smt.Lt(a.C, b.C))
					v2, m := q(a.X, b.X, smt.Lt(b.C, a.C))
					if v1 == smt.Sat && v2 == smt.Sat {
						ic.report(map[string]string{"kind": "write-write-race"}, m, "wwrace-"+cell)
					}
				}
			}
		}
		// order obligation stated directly: producer's exit before consumer's enter
		for _, en := range e.Enters {
			for _, prod := range producersOf(ic, en) {
				v, m := q(en.X, fmt.Sprintf("(not (and %s (< %s %s)))", prod.X, prod.C, en.C))
				if v == smt.Sat {
					ic.report(map[string]string{"kind": "entered-before-producer-returned", "consumer-thread": threadKind(en.Thread), "producer-thread": threadKind(prod.Thread), "_consumer": en.Ev.Prov, "_producer": prod.Ev.Prov}, m, "order-"+en.Ev.Prov)
				}
			}
		}
		// the same obligation from the declaration's side: whichever way the generated code
		// passes values (memory cells or plain locals), every provider the reference evaluation
		// of the declaration puts below a consumer has returned before the consumer is entered
		if ic.Ref.Valid {
			for _, en := range e.Enters {
				for p := range ic.Ref.DependsOn[en.Ev.Prov] {
					if p == "value" || p == "struct" {
						continue // constants and field reads are not calls: no enter/exit to order
					}
					var before []string
					for _, n := range e.Nodes {
						if n.Ev.Kind == "exit" && n.Ev.Prov == p {
							before = append(before, fmt.Sprintf("(and %s (< %s %s))", n.X, n.C, en.C))
						}
					}
					v, m := q(en.X, smt.Not(smt.Or(before...)))
					if v == smt.Sat {
						ic.report(map[string]string{"kind": "entered-before-producer-returned", "basis": "declaration", "consumer-thread": threadKind(en.Thread), "_consumer": en.Ev.Prov, "_producer": p}, m, "order-"+en.Ev.Prov)
					} else if v == smt.Unknown {
						c.Inconclusive("declaration-order query unknown for " + ic.Name())
					}
				}
			}
		}
	})
	if err != nil {
		return err
	}
	injectorCoverage(c, st, queries)
	c.Coverage["conflicting_pairs_checked"] = pairs
	if c.Thorough() {
		c.Coverage["environment"] = "provider failures, caller cancellation instant and select choices free (obligations 1-3); the final read of the result is left to C07"
	} else {
		c.Coverage["environment"] = "no provider failure, no caller cancellation (the property's own quantifier); all interleavings, latencies and select choices"
	}
	return nil
}
