package checks

import (
	"fmt"
	"go/ast"
	"sort"
	"strings"

	"golang.org/x/tools/go/ssa"
	"kverif/internal/pipeline"
	"kverif/internal/symx"
	"kverif/internal/wirecorp"
)

func init() { Registry["C13"] = checkC13 }

type seqCall struct {
	prov   string
	args   string
	failed bool
}

type seqPath struct {
	calls []seqCall
	ret   string
	err   string // "Nil" or provider name
	nfail int
}

type seqSummary struct {
	paths   []seqPath
	params  []string
	success *seqPath
	unsup   []string
}

func summarize(p *symx.CProgram) *seqSummary {
	s := &seqSummary{params: append([]string{}, p.ParamTerms...), unsup: p.Unsupported}
	if len(p.Threads) == 0 {
		return s
	}
	for _, path := range p.Threads[0].Paths {
		sp := seqPath{err: "Nil"}
		byKey := map[string]string{}
		for _, ev := range path.Events {
			switch ev.Kind {
			case "enter":
				byKey[ev.Key] = ev.Prov
				sp.calls = append(sp.calls, seqCall{prov: ev.Prov, args: strings.Join(ev.Args, " ")})
			case "exit":
				if ev.Failed {
					sp.calls[len(sp.calls)-1].failed = true
					sp.nfail++
				}
			case "return":
				sp.ret = ev.Ret
				sp.err = ev.Err
				if strings.HasPrefix(ev.Err, "(Prov ") {
					sp.err = byKey[strings.TrimSuffix(strings.TrimPrefix(ev.Err, "(Prov "), ")")]
				}
			}
		}
		s.paths = append(s.paths, sp)
	}
	for i := range s.paths {
		if s.paths[i].nfail == 0 && s.paths[i].err == "Nil" {
			s.success = &s.paths[i]
		}
	}
	return s
}

func callSet(p *seqPath) []string {
	var out []string
	for _, c := range p.calls {
		out = append(out, c.prov+"("+c.args+")")
	}
	sort.Strings(out)
	return out
}

// checkC13: the injector generated from the migrated file computes what
// google/wire's injector computes.
func checkC13(c *Ctx) error {
	c.Level = "translation_validation"
	pipe, err := pipeline.NewWire(c.ID)
	if err != nil {
		return err
	}
	defer pipe.Close()
	cfgs := wirecorp.All(pipe.S.Repo, c.Thorough())
	pipe.Run(cfgs, 12, true)
	c.Coverage["tool_build_s"] = pipe.Timing["build_s"]
	c.Coverage["tool_runs_s"] = pipe.Timing["run_s"]
	ld, err := pipe.NewLoader()
	if err != nil {
		return err
	}
	eng := symx.NewEngine(ld.Prog)
	eng.AllowPkg = func(p string) bool {
		return p == modPath || p == "github.com/google/wire" || strings.HasPrefix(p, "verifwire/") || pureStd[p]
	}
	eng.EagerInit = func(p string) bool { return strings.HasPrefix(p, "verifwire/") }
	eng.MaxSteps = 500000
	eng.MaxPaths = 4096
	opt := symx.ExtractOptions{Sequential: true, IsUserPkg: func(p string) bool { return strings.HasPrefix(p, "verifwire/") }}
	seen := map[string]bool{}
	report := func(sig map[string]string, art map[string]any, name string) {
		if c.MatchKnown(sig) == nil && seen[sigString(sig)] {
			return
		}
		seen[sigString(sig)] = true
		c.Report(sig, art, name)
	}
	var compared, injectors, wireRejected, notSeparable, comparisons int
	for _, it := range pipe.Items {
		cfg := it.Cfg
		if it.WireErr != nil || it.WireGen == "" {
			wireRejected++ // outside the quantifier: "configurations that wire itself accepts"
			continue
		}
		if !cfg.Separable() {
			notSeparable++
			continue
		}
		art := func(extra map[string]any) map[string]any {
			m := map[string]any{"config": cfg.Desc, "files": cfg.Files, "wire_gen": it.WireGen, "migrated": it.Migrated, "generated": it.Band}
			for k, v := range extra {
				m[k] = v
			}
			return m
		}
		if it.MigrateErr != nil || !it.OutputExist {
			report(map[string]string{"kind": "migration-refused", "family": cfg.Family}, art(map[string]any{"output": lastLines(it.MigrateOut, 4)}), "C13-refused-"+cfg.Name)
			continue
		}
		if it.GenErr != nil || it.Band == "" {
			report(map[string]string{"kind": "migrated-file-not-generatable", "family": cfg.Family}, art(map[string]any{"output": lastLines(it.GenOut, 4)}), "C13-nogen-"+cfg.Name)
			continue
		}
		A := ld.LoadDir(it.DirA, "verifwire/a_"+cfg.Name, true)
		B := ld.LoadDir(it.DirB, "verifwire/b_"+cfg.Name, true)
		if A.Err != nil {
			c.Inconclusive("wire's own output does not type-check for " + cfg.Desc + ": " + A.Err.Error())
			continue
		}
		if B.Err != nil {
			report(map[string]string{"kind": "migrated-package-does-not-compile", "family": cfg.Family}, art(map[string]any{"error": B.Err.Error()}), "C13-nocompile-"+cfg.Name)
			continue
		}
		compared++
		for _, name := range injectorsOf(A, ld) {
			injectors++
			fA, fB := A.SSA.Func(name), B.SSA.Func(name)
			if fB == nil {
				report(map[string]string{"kind": "injector-missing", "construct": constructOf(cfg)}, art(map[string]any{"injector": name}), "C13-missing-"+cfg.Name+"-"+name)
				continue
			}
			eng.InitPkgs = []*ssa.Package{A.SSA}
			sa := summarize(symx.ExtractInjectorOpt(eng, A.SSA, fA, opt))
			eng.InitPkgs = []*ssa.Package{B.SSA}
			sb := summarize(symx.ExtractInjectorOpt(eng, B.SSA, fB, opt))
			if len(sa.unsup) > 0 || len(sb.unsup) > 0 || sa.success == nil {
				c.Inconclusive(fmt.Sprintf("%s/%s could not be executed symbolically: %v %v", cfg.Desc, name, sa.unsup, sb.unsup))
				continue
			}
			comparisons++
			diff := func(kind string, extra map[string]any) {
				extra["injector"] = name
				report(map[string]string{"kind": kind, "construct": constructOf(cfg)}, art(extra), "C13-"+kind+"-"+cfg.Name+"-"+name)
			}
			if sb.success == nil {
				diff("no-successful-execution", map[string]any{})
				continue
			}
			// same result term
			if sa.success.ret != sb.success.ret {
				diff("result-differs", map[string]any{"wire": sa.success.ret, "kessoku": sb.success.ret})
			}
			// same providers on the same inputs
			ca, cb := callSet(sa.success), callSet(sb.success)
			if strings.Join(ca, ";") != strings.Join(cb, ";") {
				diff("calls-differ", map[string]any{"wire": ca, "kessoku": cb})
			}
			// parameters: exactly those of wire's that some invoked provider (or the result) uses
			used := map[string]bool{}
			for _, p := range sa.params {
				for _, call := range ca {
					if strings.Contains(call, p) {
						used[p] = true
					}
				}
				if strings.Contains(sa.success.ret, p) {
					used[p] = true
				}
			}
			var want []string
			for p := range used {
				want = append(want, p)
			}
			got := append([]string{}, sb.params...)
			sort.Strings(want)
			sort.Strings(got)
			if strings.Join(want, ",") != strings.Join(got, ",") {
				diff("parameters-differ", map[string]any{"wire_used": want, "kessoku": got})
			}
			// failures: whenever wire reports p's error (first failure), so does kessoku
			for _, pa := range sa.paths {
				if pa.nfail != 1 || pa.err == "Nil" {
					continue
				}
				found := false
				for _, pb := range sb.paths {
					if pb.nfail == 1 && pb.calls[len(pb.calls)-1].failed && pb.calls[len(pb.calls)-1].prov == pa.err {
						found = true
						if pb.err != pa.err {
							diff("error-differs", map[string]any{"failing": pa.err, "kessoku_returns": pb.err})
						}
					}
				}
				if !found {
					diff("failure-not-reachable", map[string]any{"failing": pa.err})
				}
			}
			for _, pb := range sb.paths {
				if pb.nfail > 0 && pb.err == "Nil" {
					diff("failure-swallowed", map[string]any{"calls": fmt.Sprint(pb.calls)})
				}
			}
			if comparisons <= 3 || strings.HasPrefix(cfg.Family, "W2") && comparisons%3 == 0 {
				c.Sample(map[string]any{"config": cfg.Desc, "injector": name, "result_term": sa.success.ret, "calls": ca, "paths_wire": len(sa.paths), "paths_kessoku": len(sb.paths)})
			}
		}
	}
	c.Coverage["programs"] = compared
	c.Coverage["disagreements_checked"] = comparisons
	c.Coverage["injector_pairs"] = injectors
	c.Coverage["evaluations"] = comparisons
	c.Coverage["distinct_nontrivial"] = compared
	c.Coverage["rule"] = "programs = wire configurations for which both tool chains produced an injector and both were executed symbolically; disagreements_checked = injector pairs compared (result term, call multiset, parameters, failure paths)"
	c.Coverage["configs_total"] = len(pipe.Items)
	c.Coverage["configs_wire_rejected"] = wireRejected
	c.Coverage["configs_not_separable"] = notSeparable
	c.Coverage["bounds"] = map[string]any{"configurations": "families W1 (DAGs x error masks x argument), W2 (constructs), W3 (repository testdata)", "failures": "every fallible call forked", "outside": "configurations wire itself rejects; wire features not listed in W2"}
	c.Coverage["explanation"] = "Oracle: google/wire v0.7.0 itself (built offline from the module cache). For every configuration: wire gen -> wire_gen.go; kessoku migrate -> kessoku.go -> kessoku generate -> kessoku_band.go (both tools built from the tree / cache at check time). Both injectors' go/ssa is executed symbolically (providers uninterpreted, struct literals as constructor terms, field reads as selector terms, failures forked at every fallible call): result terms, multisets of (provider, argument terms), parameter lists and the error returned on every single-failure path must agree. The code is sequential (the migrator never emits Async), so terms are closed and compared in the free term algebra: different normal forms have a distinguishing interpretation."
	c.Assume("providers are deterministic functions of their arguments (uninterpreted); configurations wire rejects are outside the property's quantifier; testdata inputs whose wire file also declares the types/providers cannot be set aside and are compared only by C14's gates")
	if compared == 0 {
		return fmt.Errorf("vacuity guard: no configuration was compared")
	}
	return nil
}

func constructOf(cfg *wirecorp.Config) string {
	if cfg.Family == "W2" {
		return cfg.Desc
	}
	return cfg.Family
}

func injectorsOf(a *pipeline.LoadedDir, ld *pipeline.Loader) []string {
	var out []string
	for _, f := range a.Files {
		if !strings.HasSuffix(ld.Fset.Position(f.Pos()).Filename, "wire_gen.go") {
			continue
		}
		for _, d := range f.Decls {
			if fd, ok := d.(*ast.FuncDecl); ok && fd.Recv == nil {
				out = append(out, fd.Name.Name)
			}
		}
	}
	sort.Strings(out)
	return out
}
