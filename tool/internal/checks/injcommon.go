package checks

import (
	"crypto/sha256"
	"fmt"
	"os"
	"sort"
	"strings"
	"time"

	"kverif/internal/conc"
	"kverif/internal/replay"
	"kverif/internal/smt"
)

// blockedSummary describes, per thread kind, the blocking event each
// unfinished thread stands before in the final state of model m.
func blockedSummary(ic *InjCase, m map[string]string) string {
	var parts []string
	for _, fr := range frontier(ic.Enc, m) {
		who := "main"
		if fr.Thread > 0 {
			who = "goroutine"
		}
		parts = append(parts, who+":"+fr.Ev.Site)
	}
	sort.Strings(parts)
	parts = dedupe(parts)
	return strings.Join(parts, ",")
}

func dedupe(s []string) []string {
	var out []string
	for i, x := range s {
		if i == 0 || x != s[i-1] {
			out = append(out, x)
		}
	}
	return out
}

// frontier returns the blocking nodes that did not occur although their
// predecessor did (the events threads are parked at in model m).
func frontier(e *conc.Enc, m map[string]string) []*conc.Node {
	var out []*conc.Node
	for _, n := range e.Nodes {
		if m[n.X] == "true" {
			continue
		}
		if !e.IsBlocking(n) {
			continue
		}
		if n.Parent != nil {
			if m[n.Parent.X] != "true" {
				continue
			}
			// the guard must hold: exactly one child per outcome, so check that
			// no sibling occurred
			sib := false
			for _, s := range n.Parent.Children {
				if s != n && m[s.X] == "true" {
					sib = true
				}
			}
			if sib {
				continue
			}
			if len(n.Parent.Children) > 1 && !guardHolds(n, m) {
				continue
			}
		} else if n.Thread != 0 {
			spawned := false
			for _, s := range e.Spawns[n.Thread] {
				if m[s.X] == "true" {
					spawned = true
				}
			}
			if !spawned {
				continue
			}
		}
		out = append(out, n)
	}
	return out
}

func guardHolds(n *conc.Node, m map[string]string) bool {
	p := n.Parent
	switch p.Ev.Kind {
	case "exit":
		f := m["fail_"+p.Ev.CallKey] == "true"
		return strings.HasPrefix(n.Guard, "(not") != f
	case "sel":
		return strings.HasSuffix(n.Guard, " "+m["choice_"+p.Ev.Key]+")")
	case "wait":
		w := m["wnil_"+p.Ev.Key] == "true"
		return strings.HasPrefix(n.Guard, "(not") != w
	}
	return true
}

// report classifies a counterexample of the current check. A counterexample
// whose signature is a listed known finding is counted (and, in the thorough
// tier, its first instance is replayed as the witness). Any other
// counterexample is first replayed against the real generated code; only a
// reproduced one becomes a VIOLATION, the rest are UNCONFIRMED (inconclusive).
// InputKey identifies the corpus input of the case independently of its position in the
// corpus: family, description and injector name (hashed).
func (ic *InjCase) InputKey() string {
	if ic.Item.Prog.Family == "F4" {
		// the random family depends on the seed: its inputs cannot be listed, a known
		// finding matches there by its signature alone
		return ""
	}
	h := sha256.Sum256([]byte(ic.Item.Prog.Family + "|" + ic.Item.Prog.Desc + "|" + ic.Decl.Name))
	return fmt.Sprintf("%x", h[:6])
}

func (ic *InjCase) report(sigIn map[string]string, m map[string]string, tag string) {
	c := ic.c
	// keys starting with "_" are hints for the replay oracle, not part of the signature
	sig := map[string]string{}
	hints := map[string]string{}
	for k, v := range sigIn {
		if strings.HasPrefix(k, "_") {
			hints[k] = v
		} else {
			sig[k] = v
		}
	}
	kf, pattern := c.MatchKnownInput(sig, ic.InputKey())
	known := kf != nil
	if !known && pattern != nil {
		// the failing site is that of a listed finding, the input is not one of those it is
		// listed for: a different violation of the property
		sig["input"] = "not among the inputs listed for this known finding"
	}
	key := sigString(sig)
	ic.st.mu.Lock()
	status, seen := ic.st.confirmed[key]
	if !seen {
		ic.st.confirmed[key] = "pending"
	}
	ic.st.mu.Unlock()
	var rep *replay.Result
	var script replay.Script
	if !seen && (!known || c.Thorough()) && os.Getenv("VERIF_NOREPLAY") == "" {
		ok := false
		why := ""
		for attempt := 0; attempt < 3 && !ok; attempt++ {
			if b := hints["_barrier"]; b != "" {
				script = replay.Script{Steps: []replay.Step{{Op: "barrier", Provs: strings.Split(b, ",")}}, ReleaseAll: true, Repeat: 1}
			} else {
				script = scriptFromModel(ic, m, attempt)
			}
			rep = replay.Run(ic.pipe, ic.Item, ic.Decl, script)
			ic.st.mu.Lock()
			ic.st.replays++
			ic.st.mu.Unlock()
			if rep.Err != nil {
				why = rep.Err.Error()
				continue
			}
			ok, why = observed(sig, hints, script, rep)
		}
		status = "confirmed"
		if !ok {
			status = "unconfirmed: " + why
		} else {
			ic.st.mu.Lock()
			ic.st.replayOK++
			ic.st.mu.Unlock()
		}
		ic.st.mu.Lock()
		ic.st.confirmed[key] = status
		ic.st.mu.Unlock()
		if !ok {
			c.Inconclusive(fmt.Sprintf("UNCONFIRMED counterexample %s for %s: replay did not reproduce (%s)", key, ic.Name(), why))
			if os.Getenv("VERIF_DEBUG_REPLAY") != "" && rep != nil {
				fmt.Fprintf(os.Stderr, "DEBUG schedule: %v\nscript: %+v\nobservations: %+v\ngenerated: %v\n", scheduleText(ic.Enc, m), script, rep.Observations, ic.Item.GenSrc)
			}
		}
	} else if !seen {
		status = "not-replayed"
		ic.st.mu.Lock()
		ic.st.confirmed[key] = status
		ic.st.mu.Unlock()
	} else {
		// another worker may still be replaying this signature
		for i := 0; i < 600 && status == "pending"; i++ {
			time.Sleep(500 * time.Millisecond)
			ic.st.mu.Lock()
			status = ic.st.confirmed[key]
			ic.st.mu.Unlock()
		}
	}
	if !known && strings.HasPrefix(status, "unconfirmed") {
		return
	}
	art := map[string]any{
		"program":   ic.Item.Prog.Desc,
		"family":    ic.Item.Prog.Family,
		"injector":  ic.Decl.Name,
		"sources":   ic.Item.Prog.Emit(nil, nil),
		"generated": ic.Item.GenSrc,
		"schedule":  scheduleText(ic.Enc, m),
	}
	if rep != nil {
		art["replay_script"] = script
		art["replay_observations"] = rep.Observations
		art["replay_race"] = rep.Race
	}
	name := fmt.Sprintf("%s-%s-%s", tag, ic.Item.Prog.Pkg, ic.Decl.Name)
	if c.Report(sig, art, name) {
		c.Sample(map[string]any{"violation": sig, "injector": ic.Name(), "schedule": art["schedule"]})
	} else if rep != nil {
		c.Sample(map[string]any{"known_finding_witness": sig, "injector": ic.Name(), "schedule": art["schedule"], "replay": status, "observations": rep.Observations})
	}
}

// scriptFromModel turns a model into a controller script. attempt varies how
// the controller paces itself between steps (with / without settling pauses,
// then repeated runs for runtime select choices).
func scriptFromModel(ic *InjCase, m map[string]string, attempt int) replay.Script {
	steps, cancelled, tc := ic.Enc.Schedule(m)
	sc := replay.Script{ReleaseAll: true, Repeat: 1}
	if attempt == 2 {
		sc.Repeat = 25
	}
	// attempts 0 and 2 put gates in front of the injector's blocking operations, so
	// that selects, receives and Wait are passed in the order of the model; attempt 1
	// runs the unmodified file with provider gates only
	sc.Gates = attempt != 1
	arrivals := map[string]int{}
	cancelDone := !cancelled
	for _, s := range steps {
		if !cancelDone && s.Clock > tc {
			sc.Steps = append(sc.Steps, replay.Step{Op: "cancel"})
			if attempt != 1 {
				sc.Steps = append(sc.Steps, replay.Step{Op: "settle"})
			}
			cancelDone = true
		}
		if sc.Gates && s.Line > 0 && (s.Kind == "recv" || s.Kind == "sel" || s.Kind == "wait") {
			id := fmt.Sprintf("L%d", s.Line)
			arrivals[id]++
			sc.Steps = append(sc.Steps, replay.Step{Op: "pass", Gate: id, N: arrivals[id]})
			continue
		}
		if s.Kind != "exit" {
			continue
		}
		prov := strings.TrimSuffix(s.What, " FAIL")
		if strings.HasPrefix(prov, "lit_") {
			continue
		}
		if strings.HasSuffix(s.What, " FAIL") {
			sc.Faults = append(sc.Faults, prov)
		}
		sc.Steps = append(sc.Steps, replay.Step{Op: "release", Prov: prov})
		if attempt != 1 {
			sc.Steps = append(sc.Steps, replay.Step{Op: "settle"})
		}
	}
	if !cancelDone {
		sc.Steps = append(sc.Steps, replay.Step{Op: "cancel"}, replay.Step{Op: "settle"})
	}
	return sc
}

// observed decides whether a replay exhibits the observable of a finding kind.
func observed(sig, hints map[string]string, sc replay.Script, rep *replay.Result) (bool, string) {
	why := "no run showed the observable"
	for _, o := range rep.Observations {
		if k := sig["kind"]; k == "no-overlap" || k == "ordered-after-async" {
			break
		}
		if sig["kind"] == "double-close" && strings.Contains(o.Panic, "close of closed channel") {
			return true, "" // the panic ends the run wherever the script stood
		}
		if strings.Contains(o.Panic, "nil pointer dereference inside a goroutine of the generated injector") {
			switch sig["kind"] {
			case "read-before-write", "race", "entered-before-producer-returned", "argument-differs", "result-differs":
				return true, "" // the real code crashed reading the unwritten value
			}
		}
		if !o.Realised {
			why = "schedule not realisable: " + o.StuckAt
			continue
		}
		switch sig["kind"] {
		case "substituted-error":
			if o.Returned && len(sc.Faults) > 0 && o.Err != "nil" && o.Err != "none" && !strings.HasPrefix(o.Err, "fault:") {
				return true, ""
			}
			why = "returned error " + o.Err
		case "lost-error":
			if o.Returned && (o.Err == "nil" || o.Err == "none") && faultExited(sc, o) {
				return true, ""
			}
		case "hang", "hang-after-failure", "deadlock":
			if !o.Returned {
				return true, ""
			}
			why = "injector returned"
		case "silent-partial":
			if o.Returned && (o.Err == "nil" || o.Err == "none") && o.ValueZero {
				return true, ""
			}
			why = fmt.Sprintf("returned zero=%v err=%s", o.ValueZero, o.Err)
		case "parked-goroutine", "unjoined-goroutine":
			if o.Returned && o.Leaked > 0 {
				return true, ""
			}
			if sig["kind"] == "unjoined-goroutine" && o.Returned && o.RunningAtReturn > 0 {
				return true, "" // a goroutine of the injector was still running when it returned
			}
			why = fmt.Sprintf("returned=%v leaked=%d running-at-return=%d", o.Returned, o.Leaked, o.RunningAtReturn)
		case "double-close":
			if strings.Contains(o.Panic, "close of closed channel") {
				return true, ""
			}
		case "entered-before-producer-returned", "dependent-invoked":
			if rep.Race && sig["kind"] != "dependent-invoked" {
				return true, ""
			}
			// log order: the consumer is entered although the producer has not exited (or exited with a fault)
			ce, pe := -1, -1
			for i, l := range o.Log {
				if l == "enter "+hints["_consumer"] && ce < 0 {
					ce = i
				}
				if l == "exit "+hints["_producer"] && pe < 0 {
					pe = i
				}
			}
			if sig["kind"] == "dependent-invoked" {
				if ce >= 0 && pe >= 0 && faultExited(sc, o) {
					return true, ""
				}
			} else if ce >= 0 && (pe < 0 || ce < pe) {
				return true, ""
			}
			why = fmt.Sprintf("log order does not show it: %v", o.Log)
		case "race", "read-before-write", "write-write-race":
			if rep.Race {
				return true, ""
			}
			why = "race detector silent"
		case "result-differs":
			if o.Returned && o.ValueID != hints["_expect_result"] {
				return true, ""
			}
			why = "returned " + o.ValueID
		case "argument-differs", "unneeded-provider-invoked", "provider-invoked-twice", "needed-provider-skipped", "needed-provider-never-invoked":
			n := 0
			for _, l := range o.Log {
				if strings.HasPrefix(l, "args "+hints["_prov"]+" ") {
					n++
					if sig["kind"] == "argument-differs" && l != "args "+hints["_prov"]+" ("+hints["_expect_args"]+")" {
						return true, ""
					}
				}
			}
			switch sig["kind"] {
			case "unneeded-provider-invoked":
				if n > 0 {
					return true, ""
				}
			case "provider-invoked-twice":
				if n > 1 {
					return true, ""
				}
			case "needed-provider-skipped", "needed-provider-never-invoked":
				if n == 0 && o.Returned && (o.Err == "nil" || o.Err == "none") {
					return true, ""
				}
			}
			why = fmt.Sprintf("log: %v", o.Log)
		}
	}
	// existential properties (C05): the violation is that NO schedule exists;
	// the replay holds every provider inside and asks for the overlap: it is
	// confirmed when the barrier cannot be reached.
	if k := sig["kind"]; k == "no-overlap" || k == "ordered-after-async" {
		for _, o := range rep.Observations {
			if !o.Realised && strings.HasPrefix(o.StuckAt, "barrier") {
				return true, ""
			}
		}
		return false, "the barrier was reached: the providers do overlap"
	}
	return false, why
}

func faultExited(sc replay.Script, o replay.Observation) bool {
	for _, f := range sc.Faults {
		for _, l := range o.Log {
			if l == "exit "+f {
				return true
			}
		}
	}
	return false
}

func injectorCoverage(c *Ctx, st *injStats, queries int) {
	c.Coverage["states"] = st.events
	c.Coverage["transitions"] = queries
	c.Coverage["traces_validated_against_impl"] = st.replayOK
	c.Coverage["evaluations"] = queries
	c.Coverage["distinct_nontrivial"] = st.multiThread
	c.Coverage["rule"] = "states = events of all encoded injectors (each event carries an occurrence bit and an integer clock: the encoding covers every interleaving, latency and select choice of that injector at once); transitions = solver queries discharged; distinct_nontrivial = distinct generated injectors with at least one goroutine"
	c.Assume("channels: unbuffered, close/receive only; receive on a closed channel never blocks; second close panics")
	c.Assume("errgroup.WithContext: derived ctx done when the parent is cancelled, when a Go function returns non-nil, or when Wait returns; Wait returns the first non-nil error in return order (x/sync v0.19.0 itself is not encoded)")
	c.Assume("providers: opaque, always return, deterministic functions of their arguments (uninterpreted), fail only if their signature has an error result")
	c.Assume("the caller cancels its context at most once, at any instant, and does nothing else")
	c.Assume("program dimension: bounded enumeration of declarations (corpus families F1/F2[/F4]); larger declarations are outside the claim")
}

func threadKind(t int) string {
	if t == 0 {
		return "main"
	}
	return "goroutine"
}

// consumerOf names what a read feeds: the next enter/return event after it in
// its thread (structurally: "provider-argument" or "result").
func consumerOf(ic *InjCase, r *conc.Node) string {
	for n := r; n != nil; {
		if len(n.Children) == 0 {
			break
		}
		n = n.Children[0]
		switch n.Ev.Kind {
		case "enter":
			return "provider-argument"
		case "return":
			return "result"
		case "rd":
			continue
		default:
			return n.Ev.Kind
		}
	}
	return "?"
}

// feedsReturnOnly: the read's value is used only as the injector's result.
func feedsReturnOnly(ic *InjCase, r *conc.Node) bool {
	return consumerOf(ic, r) == "result"
}

// producersOf returns the exit nodes of the calls whose results feed the
// arguments of the call entered at en: the argument terms mention read
// values; each read's cell is written from the outputs of some call.
func producersOf(ic *InjCase, en *conc.Node) []*conc.Node {
	e := ic.Enc
	var out []*conc.Node
	seen := map[*conc.Node]bool{}
	for _, a := range en.Ev.Args {
		for _, n := range e.Nodes {
			if n.Ev.Kind != "rd" || !strings.Contains(a, n.Ev.Val) {
				continue
			}
			for _, w := range e.Writes[n.Ev.Cell] {
				// the exit event that precedes the write in its thread
				for p := w.Parent; p != nil; p = p.Parent {
					if p.Ev.Kind == "exit" {
						if !seen[p] && w.Ev.Val != "ZEROV" {
							seen[p] = true
							out = append(out, p)
						}
						break
					}
					if p.Ev.Kind != "wr" {
						break
					}
				}
			}
		}
	}
	return out
}

var _ = fmt.Sprint

// nativeID renders a reference term of sort V the way the replay's
// identity-carrying values print themselves.
func nativeID(term string) string {
	sx, err := smt.ParseSexp(term)
	if err != nil || sx == nil {
		return term
	}
	var render func(x *smt.Sexp) string
	outName := func(a string) (string, bool) {
		if !strings.HasPrefix(a, "out_") {
			return "", false
		}
		a = a[4:]
		i := strings.LastIndexByte(a, '_')
		if i < 0 {
			return "", false
		}
		return a[:i] + "#" + a[i+1:], true
	}
	render = func(x *smt.Sexp) string {
		if !x.IsL {
			switch {
			case x.Atom == "in_ctx":
				return "ctx"
			case x.Atom == "ZEROV":
				return "nil"
			}
			if n, ok := outName(x.Atom); ok {
				return n + "()"
			}
			return x.Atom
		}
		if len(x.List) == 0 {
			return ""
		}
		head := x.List[0].Atom
		var args []string
		for _, a := range x.List[1:] {
			args = append(args, render(a))
		}
		if n, ok := outName(head); ok {
			return n + "(" + strings.Join(args, ",") + ")"
		}
		if head == "litS" && len(x.List) == 2 {
			s, _ := smt.ParseStrLit(x.List[1].Atom)
			return s
		}
		return head + "(" + strings.Join(args, ",") + ")"
	}
	return render(sx)
}

func nativeArgs(args []string) string {
	out := make([]string, len(args))
	for i, a := range args {
		out[i] = nativeID(a)
	}
	return strings.Join(out, ",")
}
