package checks

import (
	"fmt"
	"strings"

	"kverif/internal/symx"
)

// queueLemma runs the FIFO harness on the real collection.Queue (the queue of
// Graph.topologicalSortIter): every Push/Pop sequence of length n. Reported under the calling
// property (C05: the "every input-free Async provider gets its own pool first" argument
// rests on breadth-first order).
func queueLemma(c *Ctx, n int) error {
	k, err := NewKernel(c, "internal/pkg/collection", "collection", "collection_queue.go")
	if err != nil {
		return err
	}
	defer k.Close(c)
	fn := k.Pkg.Func("verifHarnessQueue")
	if fn == nil {
		return fmt.Errorf("queue harness missing")
	}
	k.E.MaxSteps = 2_000_000
	res := k.E.Run(fn, func(ps *symx.PathState) []any { return []any{symx.IntArg(n)} }, nil)
	reached, oblig := 0, 0
	reported := map[string]bool{}
	for _, r := range res {
		if !strings.HasPrefix(r.Outcome, "ok") && !strings.HasPrefix(r.Outcome, "stopped") {
			c.Inconclusive("queue harness: path outcome " + r.Outcome)
			continue
		}
		for _, rc := range r.Reached {
			if rc == "end" {
				reached++
			}
		}
		for _, a := range r.Asserts {
			oblig++
			if a.Verdict == "violated" && !reported[a.ID] {
				reported[a.ID] = true
				var ops []string
				for _, in := range r.Inputs {
					if in.Kind == "choice" {
						ops = append(ops, []string{"push", "pop"}[in.Choice%2])
					}
				}
				// replay the operation sequence against the natively compiled queue before reporting
				script := symx.Script(r.Inputs, a.Model)
				out, _ := k.ReplayNative("internal/pkg/collection", "collection", fmt.Sprintf("verifHarnessQueue(%d)", n), script)
				if !strings.Contains(out, "VERIF-ASSERT-FAIL "+a.ID) {
					c.Inconclusive(fmt.Sprintf("UNCONFIRMED queue counterexample %v (native replay did not reproduce): %s", ops, lastLines(out, 4)))
					continue
				}
				c.Report(map[string]string{"kind": "scheduler queue is not FIFO", "assert": a.ID}, map[string]any{"operations": ops, "script": script, "native": lastLines(out, 3)}, "queue-"+a.ID)
			} else if a.Verdict == "unknown" {
				c.Inconclusive("queue harness: obligation " + a.ID + " unknown")
			}
		}
	}
	c.Coverage["queue_lemma"] = map[string]any{"sequence_length": n, "paths": len(res), "paths_to_end": reached, "obligations": oblig}
	if reached == 0 {
		return fmt.Errorf("vacuity guard: queue harness never reached its end")
	}
	return nil
}
