// Package checks holds one file per property: obligations, classification of
// counterexamples against the known-findings file, and evidence.
package checks

import (
	"encoding/json"
	"fmt"
	"os"
	"path/filepath"
	"sort"
	"strings"
	"sync"
	"time"

	"kverif/internal/load"
	"kverif/internal/smt"
)

type Ctx struct {
	ID    string
	Tier  string // quick | thorough
	Seed  int
	Start time.Time

	mu          sync.Mutex
	Level       string
	Coverage    map[string]any
	Assumptions []string
	Violations  int
	Known       map[string]int // known-finding text -> matches
	Inconcl     []string
	known       *KnownFile
	Solver      smt.Stats
	samples     []any
	// KernelSolver overrides the solver used by NewKernel ("z3", "z3-new",
	// "cvc5", "portfolio"); KernelIncremental keeps push/pop on one process.
	KernelSolver      string
	KernelIncremental bool
}

type KnownFinding struct {
	Property  string            `json:"property"`
	Signature map[string]string `json:"signature"`
	Text      string            `json:"text"`
	Witness   any               `json:"witness,omitempty"`
	// Inputs, if present, are the corpus inputs (InputKey: family, description, injector) on
	// which the finding occurs on the pinned tree. The same signature on any other input is a
	// different violation of the property and is reported.
	Inputs []string `json:"inputs,omitempty"`
	inputs map[string]bool
}

type FixedFinding struct {
	Property string `json:"property"`
	Commit   string `json:"commit"`
	Text     string `json:"text"`
}

type KnownFile struct {
	Findings []KnownFinding `json:"findings"`
	Fixed    []FixedFinding `json:"fixed"`
}

func NewCtx(id, tier string, seed int) *Ctx {
	c := &Ctx{ID: id, Tier: tier, Seed: seed, Start: time.Now(), Coverage: map[string]any{}, Known: map[string]int{}}
	c.known = &KnownFile{}
	if data, err := os.ReadFile(filepath.Join(load.VerifDir(), "known_findings.json")); err == nil {
		if err := json.Unmarshal(data, c.known); err != nil {
			fmt.Fprintln(os.Stderr, "known_findings.json:", err)
		}
	}
	return c
}

func (c *Ctx) Thorough() bool { return c.Tier == "thorough" }

func (c *Ctx) Assume(s string) {
	c.mu.Lock()
	defer c.mu.Unlock()
	for _, a := range c.Assumptions {
		if a == s {
			return
		}
	}
	c.Assumptions = append(c.Assumptions, s)
}

func (c *Ctx) Sample(s any) {
	c.mu.Lock()
	defer c.mu.Unlock()
	if len(c.samples) < 6 {
		c.samples = append(c.samples, s)
	}
}

func (c *Ctx) Inconclusive(what string) {
	c.mu.Lock()
	defer c.mu.Unlock()
	c.Inconcl = append(c.Inconcl, what)
	if len(c.Inconcl) <= 20 {
		fmt.Printf("INCONCLUSIVE property=%s %s\n", c.ID, what)
	}
}

func sigString(sig map[string]string) string {
	ks := make([]string, 0, len(sig))
	for k := range sig {
		ks = append(ks, k)
	}
	sort.Strings(ks)
	var sb strings.Builder
	for _, k := range ks {
		fmt.Fprintf(&sb, "%s=%s;", k, sig[k])
	}
	return sb.String()
}

// MatchKnown returns the known finding whose signature equals sig.
func (c *Ctx) MatchKnown(sig map[string]string) *KnownFinding {
	want := sigString(sig)
	for i := range c.known.Findings {
		f := &c.known.Findings[i]
		if f.Property == c.ID && sigString(f.Signature) == want {
			return f
		}
	}
	return nil
}

// MatchKnownInput is MatchKnown for findings that list their inputs: the finding matches only
// on a listed input. pattern reports that the signature alone did match a listed finding.
func (c *Ctx) MatchKnownInput(sig map[string]string, input string) (f *KnownFinding, pattern *KnownFinding) {
	k := c.MatchKnown(sig)
	if k == nil {
		return nil, nil
	}
	if input == "" {
		return k, k
	}
	if v := os.Getenv("VERIF_COLLECT_KNOWN"); v != "" {
		// development aid (never set by a registered command): record where listed findings occur
		c.mu.Lock()
		if fh, err := os.OpenFile(v, os.O_APPEND|os.O_CREATE|os.O_WRONLY, 0o644); err == nil {
			fmt.Fprintf(fh, "%s\t%s\t%s\n", c.ID, sigString(k.Signature), input)
			fh.Close()
		}
		c.mu.Unlock()
		return k, k
	}
	if len(k.Inputs) == 0 {
		return k, k
	}
	c.mu.Lock()
	if k.inputs == nil {
		k.inputs = map[string]bool{}
		for _, in := range k.Inputs {
			k.inputs[in] = true
		}
	}
	ok := k.inputs[input]
	c.mu.Unlock()
	if ok {
		return k, k
	}
	return nil, k
}

// Report classifies a confirmed counterexample: a listed known finding is
// counted; anything else is a violation whose artefact is written for replay.
// It returns true if it was a new violation.
func (c *Ctx) Report(sig map[string]string, artefact any, name string) bool {
	c.mu.Lock()
	defer c.mu.Unlock()
	if f := c.MatchKnown(sig); f != nil {
		c.Known[f.Text]++
		return false
	}
	c.Violations++
	dir := filepath.Join(load.OutDir(), "replays", c.ID)
	_ = os.MkdirAll(dir, 0o755)
	path := filepath.Join(dir, name+".json")
	data, _ := json.MarshalIndent(map[string]any{"property": c.ID, "signature": sig, "artefact": artefact}, "", " ")
	_ = os.WriteFile(path, data, 0o644)
	if c.Violations <= 10 {
		fmt.Printf("VIOLATION property=%s replay=%s\n", c.ID, path)
		fmt.Printf("  signature: %s\n", sigString(sig))
	}
	return true
}

// Finish prints KNOWN-FINDING lines, writes the evidence file and returns the exit code.
func (c *Ctx) Finish(machineryErr error) int {
	c.mu.Lock()
	defer c.mu.Unlock()
	texts := make([]string, 0, len(c.Known))
	for t := range c.Known {
		texts = append(texts, t)
	}
	sort.Strings(texts)
	for _, t := range texts {
		fmt.Printf("KNOWN-FINDING: property=%s %s (matched %d counterexamples)\n", c.ID, t, c.Known[t])
	}
	if c.Level == "" {
		c.Level = "other"
	}
	cov := c.Coverage
	if _, ok := cov["samples"]; !ok && len(c.samples) > 0 {
		cov["samples"] = c.samples
	}
	cov["solver_queries"] = c.Solver.Queries
	cov["queries_sat"] = c.Solver.Sat
	cov["queries_unsat"] = c.Solver.Unsat
	cov["queries_unknown"] = c.Solver.Unknown
	cov["solver_errors"] = c.Solver.Errors
	if c.Solver.Errors > 0 {
		// an "(error" answer is never a verdict: say so even where the query's caller did not
		// (c.mu is held here)
		msg := fmt.Sprintf("%d solver answers were errors (counted as unknown, no verdict drawn from them)", c.Solver.Errors)
		c.Inconcl = append(c.Inconcl, msg)
		fmt.Printf("INCONCLUSIVE property=%s %s\n", c.ID, msg)
	}
	cov["solver_time_s"] = float64(c.Solver.SolverNs) / 1e9
	if len(c.Inconcl) > 0 {
		cov["inconclusive"] = c.Inconcl
	}
	if len(c.Known) > 0 {
		cov["known_findings_matched"] = c.Known
	}
	if machineryErr != nil {
		cov["machinery_error"] = machineryErr.Error()
	}
	ev := map[string]any{
		"property_id": c.ID,
		"tier":        c.Tier,
		"seed":        c.Seed,
		"level":       c.Level,
		"coverage":    cov,
		"assumptions": c.Assumptions,
		"wall_s":      time.Since(c.Start).Seconds(),
		"violations":  c.Violations,
	}
	dir := filepath.Join(load.OutDir(), "evidence")
	_ = os.MkdirAll(dir, 0o755)
	data, _ := json.MarshalIndent(ev, "", " ")
	if err := os.WriteFile(filepath.Join(dir, c.ID+".json"), data, 0o644); err != nil {
		fmt.Fprintln(os.Stderr, "evidence:", err)
	}
	if machineryErr != nil {
		fmt.Fprintf(os.Stderr, "MACHINERY-ERROR property=%s %v\n", c.ID, machineryErr)
		return 2
	}
	if c.Violations > 0 {
		return 1
	}
	fmt.Printf("OK property=%s tier=%s wall=%.1fs\n", c.ID, c.Tier, time.Since(c.Start).Seconds())
	return 0
}

// Registry of checks.
type CheckFn func(c *Ctx) error

var Registry = map[string]CheckFn{}

// ReplayFn re-runs a stored counterexample.
type ReplayFn func(path string) error

var Replays = map[string]ReplayFn{}
