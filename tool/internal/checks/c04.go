package checks

import (
	"fmt"
	"strings"

	"kverif/internal/corpus"
	"kverif/internal/symx"
)

func init() { Registry["C04"] = checkC04 }

// checkC04: successful generation yields compilable, hygienic Go.
func checkC04(c *Ctx) error {
	c.Level = "other"
	c.KernelSolver, c.KernelIncremental = "z3", true
	k, err := NewKernel(c, "internal/kessoku", "kessoku", "kessoku_types.go", "kessoku_varpool.go")
	if err != nil {
		return err
	}
	defer k.Close(c)
	symx.InstallKessokuStubs(k.E)
	symx.InstallSyncStubs(k.E)
	k.E.Solver.Close()
	k.E.Solver = nil
	k.E.NewSolver = nil
	k.E.Workers = 12
	k.E.MaxSteps = 3_000_000
	allow := k.E.AllowPkg
	k.E.AllowPkg = func(p string) bool {
		return allow(p) || p == "go/types" || p == "go/constant" || p == "sync/atomic" || p == "go/version" || p == "internal/gover" || p == "internal/types/errors" || p == "math/big"
	}
	seen := map[string]bool{}
	var oblig, paths int
	report := func(sig map[string]string, art map[string]any, name string) {
		if seen[sigString(sig)] {
			return
		}
		seen[sigString(sig)] = true
		c.Sample(map[string]any{"violation": sig, "detail": art})
		c.Report(sig, art, name)
	}
	// (B) type spelling
	depth := 1
	if c.Thorough() {
		depth = 2
	}
	fn := k.Pkg.Func("verifHarnessTypeExpr")
	if fn == nil {
		return fmt.Errorf("harness missing")
	}
	reach := 0
	shapes := map[string]bool{}
	res := k.E.Run(fn, func(ps *symx.PathState) []any { return []any{symx.IntArg(depth)} }, nil)
	for _, r := range res {
		paths++
		if !strings.HasPrefix(r.Outcome, "ok") && !strings.HasPrefix(r.Outcome, "stopped") {
			c.Inconclusive("type spelling harness: path outcome " + r.Outcome)
			continue
		}
		var typ, spelled string
		for _, ev := range r.Events {
			if le, ok := ev.(symx.LogEvent); ok {
				switch le.Tag {
				case "type":
					typ = fmt.Sprint(le.Val)
				case "spelled":
					spelled = fmt.Sprint(le.Val)
				}
			}
		}
		for _, rc := range r.Reached {
			if rc == "end" {
				reach++
				shapes[typ] = true
			}
		}
		for _, a := range r.Asserts {
			oblig++
			if a.Verdict == "violated" {
				report(map[string]string{"kind": a.ID, "shape": typeShape(typ, spelled)}, map[string]any{"type": typ, "spelled_as": spelled}, "C04-type-"+corpus.Sanitize(typeShape(typ, spelled)))
			}
		}
	}
	c.Coverage["type_spelling_paths"] = len(res)
	c.Coverage["distinct_types"] = len(shapes)
	if reach == 0 {
		return fmt.Errorf("vacuity guard: type spelling harness never reached its end")
	}
	// (B2) imports of a spelled type: qualifiers used = ReferencedImports recorded
	if fn2 := k.Pkg.Func("verifHarnessTypeImports"); fn2 == nil {
		return fmt.Errorf("harness missing: verifHarnessTypeImports")
	} else {
		reach2 := 0
		res2 := k.E.Run(fn2, func(ps *symx.PathState) []any { return []any{symx.IntArg(depth)} }, nil)
		for _, r := range res2 {
			paths++
			if !strings.HasPrefix(r.Outcome, "ok") && !strings.HasPrefix(r.Outcome, "stopped") {
				c.Inconclusive("type imports harness: path outcome " + r.Outcome)
				continue
			}
			var typ, order, taken string
			for _, ev := range r.Events {
				if le, ok := ev.(symx.LogEvent); ok {
					switch le.Tag {
					case "type":
						typ = fmt.Sprint(le.Val)
					case "order":
						order = fmt.Sprint(le.Val)
					case "taken":
						taken = "package name already in use"
					}
				}
			}
			for _, rc := range r.Reached {
				if rc == "end" {
					reach2++
				}
			}
			for _, a := range r.Asserts {
				oblig++
				if a.Verdict == "violated" {
					report(map[string]string{"kind": a.ID, "shape": typeShape(typ, ""), "order": order, "name": taken}, map[string]any{"type": typ}, "C04-imports-"+corpus.Sanitize(typeShape(typ, "")+"-"+order))
				}
			}
		}
		c.Coverage["type_import_paths"] = len(res2)
		if reach2 == 0 {
			return fmt.Errorf("vacuity guard: type imports harness never reached its end")
		}
	}
	// (C) gate: every generated corpus package type-checks; hygiene of generated identifiers
	progs := append(corpus.F2(c.Thorough()), corpus.FN()...)
	progs = append(progs, corpus.FH()...)
	progs = append(progs, corpus.F5(1, 2)...)
	progs = append(progs, corpus.F1(3, 1, true, false)...)
	if c.Thorough() {
		progs = append(progs, corpus.F1(4, 1, false, false)...)
		progs = append(progs, corpus.F5(2, 1)...)
		progs = append(progs, corpus.F6(2, 1)...)
	}
	pipe, items, err := runGateCorpus(c, "compile", progs)
	if err != nil {
		return err
	}
	defer pipe.Close()
	compiled := 0
	for _, it := range items {
		if it.CLIErr != nil {
			c.Inconclusive(fmt.Sprintf("compile gate: generator rejected %q: %s", it.Prog.Desc, lastLines(it.CLIOut, 2)))
			continue
		}
		oblig++
		compiled++
		if it.Err != nil {
			report(map[string]string{"kind": "gate-does-not-compile", "error": compileErrorClass(it.Err.Error()), "family": it.Prog.Family},
				map[string]any{"program": it.Prog.Desc, "error": it.Err.Error(), "sources": it.Prog.Emit(nil, nil), "generated": it.GenSrc}, "C04-compile-"+it.Prog.Pkg)
			continue
		}
		if finds := hygieneFindings(it); len(finds) > 0 {
			report(map[string]string{"kind": "gate-name-clash", "program": it.Prog.Desc}, map[string]any{"findings": finds, "generated": it.GenSrc}, "C04-hygiene-"+it.Prog.Pkg)
		}
	}
	engineCoverage(c, k.E, "")
	c.Coverage["bounds"] = map[string]any{"type_constructor_depth": depth, "leaf_types": "int, string, local named, external named", "children_of_func_struct_interface": "leaves", "gates": "corpus families F2, FN, FH, FT, F5, F1 (n=3)", "outside": "deeper types, type parameters other than one generic instance, declarations outside the gated families"}
	c.Coverage["explanation"] = fmt.Sprintf("(B) path-complete bounded execution of the real createASTTypeExpr on every type of constructor depth <= %d built with the real go/types constructors (basic, local/external named, pointer, slice, array, map, chan x 3 directions, function incl. variadic, struct incl. embedded fields and tags, interface with a method, generic instance): the produced ast.Expr is rendered and compared with a reference spelling of the type (%d paths, %d distinct types). (A)/(C) gates through the CLI: %d generated packages (feature, naming, hard-coded-identifier, second-injector and core families) must type-check and no generated local may shadow a package-level, predeclared or imported name. 'Compiles' as a universal statement is outside the claim.", depth, len(res), len(shapes), compiled)
	c.Coverage["obligations"] = oblig
	c.Coverage["evaluations"] = paths + compiled
	c.Coverage["distinct_nontrivial"] = len(shapes)
	c.Coverage["rule"] = "evaluation = harness path or gated package; distinct_nontrivial = distinct type shapes spelled"
	c.Coverage["gate_packages"] = compiled
	c.Assume("the reference spelling assumes default import names (no alias collision); alias allocation is C12's subject")
	return nil
}

// typeShape abstracts a counterexample to the constructor that is misspelled.
func typeShape(typ, spelled string) string {
	switch {
	case strings.Contains(typ, "..."):
		return "variadic-function"
	case strings.Contains(typ, "Box["):
		return "generic-instance"
	case strings.Contains(typ, "embedded") && strings.Contains(typ, "struct{"):
		return "embedded-field"
	case strings.Contains(typ, "tag="):
		return "struct-tag"
	case strings.Contains(typ, "unsafe.Pointer"):
		return "unsafe-pointer"
	case strings.Contains(typ, "interface{embedded"):
		return "embedded-interface"
	}
	if i := strings.IndexAny(typ, "[({*<"); i > 0 {
		return typ[:i]
	}
	return typ
}

func compileErrorClass(msg string) string {
	for _, k := range []string{"declared and not used", "no new variables on left side", "imported and not used", "undefined", "redeclared", "cannot use", "not a type"} {
		if strings.Contains(msg, k) {
			return k
		}
	}
	return "other"
}
