package checks

import (
	"fmt"
	"go/types"
	"sort"
	"strings"

	"kverif/internal/corpus"
	"kverif/internal/symx"
)

func init() { Registry["C10"] = checkC10 }

// checkC10: the injector's signature follows the declaration.
func checkC10(c *Ctx) error {
	c.Level = "other"
	c.KernelSolver, c.KernelIncremental = "z3", true
	k, err := NewKernel(c, "internal/kessoku", "kessoku", "kessoku_build.go", "kessoku_varpool.go")
	if err != nil {
		return err
	}
	defer k.Close(c)
	symx.InstallKessokuStubs(k.E)
	symx.InstallSyncStubs(k.E)
	k.E.Solver.Close()
	k.E.Solver = nil
	k.E.NewSolver = nil
	k.E.Workers = 12
	k.E.MaxSteps = 3_000_000
	allow := k.E.AllowPkg
	k.E.AllowPkg = func(p string) bool {
		return allow(p) || p == "go/types" || p == "go/constant" || p == "sync/atomic" || p == "go/version" || p == "internal/gover" || p == "internal/types/errors" || p == "math/big"
	}
	type bb struct{ np, nx int }
	bounds := []bb{{2, 3}}
	if c.Thorough() {
		bounds = []bb{{2, 3}, {3, 1}}
	}
	np := bounds[len(bounds)-1].np
	fn := k.Pkg.Func("verifHarnessBuild")
	if fn == nil {
		return fmt.Errorf("harness missing")
	}
	var oblig, reached int
	seen := map[string]bool{}
	var res []symx.PathResult
	for _, b := range bounds {
		b := b
		res = append(res, k.E.Run(fn, func(ps *symx.PathState) []any { return []any{symx.IntArg(b.np), symx.IntArg(b.nx)} }, nil)...)
	}
	for _, r := range res {
		if !strings.HasPrefix(r.Outcome, "ok") {
			c.Inconclusive("Build harness: path outcome " + r.Outcome)
			continue
		}
		for _, rc := range r.Reached {
			if rc == "end" {
				reached++
			}
		}
		for _, a := range r.Asserts {
			oblig++
			if a.Verdict == "violated" {
				sig := map[string]string{"kind": "signature-" + a.ID, "harness": "Build"}
				if seen[sigString(sig)] {
					continue
				}
				seen[sigString(sig)] = true
				var choices []int
				for _, d := range r.Decisions {
					choices = append(choices, d.Choice)
				}
				c.Sample(map[string]any{"violation": sig, "choices": choices})
				c.Report(sig, map[string]any{"harness": "verifHarnessBuild", "providers": np, "choices": choices}, "C10-build-"+a.ID)
			}
		}
	}
	c.Coverage["build_harness_paths"] = len(res)
	c.Coverage["build_harness_paths_reaching_end"] = reached
	// Gate: signatures of the generated functions of the corpus
	progs := append(corpus.F1(1, 1, true, false), corpus.F1(2, 2, true, false)...)
	progs = append(progs, corpus.F1(3, 1, true, false)...)
	progs = append(progs, corpus.F2(c.Thorough())...)
	if c.Thorough() {
		progs = append(progs, corpus.F1(4, 1, true, false)...)
	}
	pipe, items, err := runGateCorpus(c, "sig", progs)
	if err != nil {
		return err
	}
	defer pipe.Close()
	checked := 0
	for _, it := range items {
		if it.CLIErr != nil || it.Err != nil || it.Types == nil {
			c.Inconclusive(fmt.Sprintf("signature gate: %s not generated/compiled (%v %v)", it.Prog.Desc, it.CLIErr, it.Err))
			continue
		}
		for _, d := range it.Prog.Decls {
			ref := it.Prog.Evaluate(d)
			if !ref.Valid {
				continue
			}
			checked++
			oblig++
			if finds := signatureFindings(it.Types, d, ref, importAliases(it.Prog)); len(finds) > 0 {
				sig := map[string]string{"kind": "gate-signature", "how": finds[0]}
				if seen[sigString(sig)] {
					continue
				}
				seen[sigString(sig)] = true
				c.Sample(map[string]any{"violation": sig, "program": it.Prog.Desc})
				c.Report(sig, map[string]any{"program": it.Prog.Desc, "findings": finds, "sources": it.Prog.Emit(nil, nil), "generated": it.GenSrc}, "C10-gate-"+it.Prog.Pkg)
			}
		}
	}
	engineCoverage(c, k.E, "")
	c.Coverage["bounds"] = map[string]any{"providers_x_unsupplied_types": fmt.Sprint(bounds), "outside": "declarations with more providers are covered only by the signature gate over the corpus"}
	c.Coverage["explanation"] = fmt.Sprintf("Path-complete bounded execution of the real NewGraph + Graph.Build (+ findOptimalPool, topologicalSortIter, buildStmts, injectContextArg) + generateInjectorDecl on every declaration with %d providers over real go/types named types (Async / fallible bits, requirement subsets over later providers, two unsupplied argument types and context.Context, requirement order), asserting on the resulting ast.FuncDecl: name, parameters = unsupplied types each once, ctx present iff a needed provider is Async or ctx is unsupplied and first iff Async, results = requested type [+ error iff a needed provider is fallible] (%d paths). Gate: the go/types signature of %d generated corpus functions equals the reference evaluator's.", np, len(res), checked)
	c.Coverage["obligations"] = oblig
	c.Coverage["evaluations"] = len(res) + checked
	c.Coverage["distinct_nontrivial"] = reached
	c.Coverage["rule"] = "evaluation = harness path or gated corpus function; distinct_nontrivial = harness paths that ran NewGraph, Build and generateInjectorDecl to the end"
	c.Coverage["exhaustive"] = true
	c.Coverage["gate_functions"] = checked
	c.Assume("go/types objects are built by the real constructors (NewPackage/NewTypeName/NewNamed/NewPointer), interpreted; sync.Mutex and sync/atomic operations inside go/types are stubbed as sequential")
	if reached == 0 {
		return fmt.Errorf("vacuity guard: Build harness never reached its end")
	}
	return nil
}

// typeStr spells a type the way the corpus does: own package unqualified, context as
// context, other packages by the import name or alias of the program's first file.
func typeStr(t types.Type, own *types.Package, aliases map[string]string) string {
	return types.TypeString(t, func(p *types.Package) string {
		switch {
		case p == own:
			return ""
		case aliases[p.Path()] != "":
			return aliases[p.Path()]
		}
		return p.Name()
	})
}

func importAliases(pr *corpus.Program) map[string]string {
	out := map[string]string{}
	for _, im := range pr.ExtraImports {
		f := strings.Fields(im)
		path := strings.Trim(f[len(f)-1], "\"")
		if len(f) == 2 {
			out[path] = f[0]
		}
	}
	return out
}

func signatureFindings(pkg *types.Package, d corpus.Decl, ref *corpus.Ref, aliases map[string]string) []string {
	obj := pkg.Scope().Lookup(d.Name)
	if obj == nil {
		return []string{"no function named " + d.Name}
	}
	sig, ok := obj.Type().(*types.Signature)
	if !ok {
		return []string{d.Name + " is not a function"}
	}
	var finds []string
	var got []string
	ctxAt := -1
	for i := 0; i < sig.Params().Len(); i++ {
		s := typeStr(sig.Params().At(i).Type(), pkg, aliases)
		if s == "context.Context" {
			if ctxAt >= 0 {
				finds = append(finds, "context.Context appears twice")
			}
			ctxAt = i
			continue
		}
		got = append(got, s)
	}
	want := append([]string{}, ref.Params...)
	sort.Strings(got)
	sort.Strings(want)
	if strings.Join(got, ",") != strings.Join(want, ",") {
		finds = append(finds, fmt.Sprintf("parameters %v, expected %v", got, want))
	}
	if (ctxAt >= 0) != ref.NeedsCtx {
		finds = append(finds, fmt.Sprintf("context.Context parameter present=%v, expected %v", ctxAt >= 0, ref.NeedsCtx))
	}
	if ref.CtxFirst && ctxAt != 0 {
		finds = append(finds, "context.Context is not the first parameter although a needed provider is Async")
	}
	nres := sig.Results().Len()
	if nres < 1 || typeStr(sig.Results().At(0).Type(), pkg, aliases) != d.Request {
		finds = append(finds, "first result is not "+d.Request)
	}
	hasErr := nres == 2 && sig.Results().At(1).Type().String() == "error"
	if hasErr != ref.RetErr || (nres != 1 && nres != 2) {
		finds = append(finds, fmt.Sprintf("error result present=%v, expected %v", hasErr, ref.RetErr))
	}
	return finds
}
