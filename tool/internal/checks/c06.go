package checks

import (
	"fmt"
	"sort"
	"strings"

	"kverif/internal/smt"
)

func init() {
	Registry["C06"] = checkC06
	Registry["C07"] = checkC07
	Registry["C08"] = checkC08
	Registry["C05"] = checkC05
}

// checkC06: a provider failure surfaces as that failure (caller never cancels; the
// "returns a non-nil error" clause also with the caller cancelling at a free instant).
func checkC06(c *Ctx) error {
	c.Level = "model_checking"
	progs := corpusFor(c)
	var queries int
	st, err := forEachInjector(c, progs, func(ic *InjCase) {
		e := ic.Enc
		if len(e.Fails) == 0 {
			return
		}
		nc := e.NoCancelTerm()
		q := func(extra ...string) (smt.Verdict, map[string]string) {
			c.mu.Lock()
			queries++
			c.mu.Unlock()
			return ic.Query(true, append([]string{nc}, extra...)...)
		}
		F := e.SomeFailure()
		for _, r := range e.Returns {
			// (a) failure lost: nil error although an invoked provider failed
			if r.Ev.Err == "Nil" {
				if v, m := q(r.X, F); v == smt.Sat {
					ic.report(map[string]string{"kind": "lost-error", "return-site": r.Ev.Site}, m, "lost")
				} else if v == smt.Unknown {
					c.Inconclusive("lost-error query unknown for " + ic.Name())
				}
				continue
			}
			// (b) the returned error is one an invoked provider returned
			var own []string
			for _, f := range e.Fails {
				own = append(own, fmt.Sprintf("(and %s fail_%s (= %s (Prov %s)))", f.X, f.Ev.CallKey, r.Ev.Err, f.Ev.CallKey))
			}
			if v, m := q(r.X, smt.Not(smt.Or(own...))); v == smt.Sat {
				cls := r.Ev.Err
				if strings.HasPrefix(cls, "werr_") {
					cls = "wait:" + m[cls]
				}
				if strings.HasPrefix(cls, "(Prov") {
					cls = "Prov"
				}
				ic.report(map[string]string{"kind": "substituted-error", "returned": cls, "return-site": r.Ev.Site}, m, "subst")
			} else if v == smt.Unknown {
				c.Inconclusive("substituted-error query unknown for " + ic.Name())
			}
		}
		// (a') the first clause holds whether or not the caller cancels: with the cancellation
		// instant free as well, no return reports a nil error after an invoked provider failed
		for _, r := range e.Returns {
			var errNil string
			switch {
			case r.Ev.Err == "Nil":
				errNil = "true"
			case strings.HasPrefix(r.Ev.Err, "werr_"):
				errNil = "(= " + r.Ev.Err + " Nil)"
			default:
				continue
			}
			c.mu.Lock()
			queries++
			c.mu.Unlock()
			if v, m := ic.Query(true, "cancelled", r.X, F, errNil); v == smt.Sat {
				ic.report(map[string]string{"kind": "lost-error", "return-site": r.Ev.Site, "caller-cancelled": "true"}, m, "lostc")
			} else if v == smt.Unknown {
				c.Inconclusive("lost-error-under-cancellation query unknown for " + ic.Name())
			}
		}
		// (c) no provider that depends on a failed one is invoked
		for _, f := range e.Fails {
			for _, en := range e.Enters {
				if !ic.Ref.Valid || !ic.Ref.DependsOn[en.Ev.Prov][f.Ev.Prov] {
					continue
				}
				if v, m := q(f.X, "fail_"+f.Ev.CallKey, en.X); v == smt.Sat {
					ic.report(map[string]string{"kind": "dependent-invoked", "thread": threadKind(en.Thread), "_consumer": en.Ev.Prov, "_producer": f.Ev.Prov}, m, "dep-"+en.Ev.Prov)
				}
			}
		}
		// (d) termination with failures
		if v, m := q(e.PsiTerm(), F, smt.Not(e.Returned(0))); v == smt.Sat {
			ic.report(map[string]string{"kind": "hang-after-failure", "blocked": blockedSummary(ic, m)}, m, "hang")
		} else if v == smt.Unknown {
			c.Inconclusive("termination query unknown for " + ic.Name())
		}
	})
	if err != nil {
		return err
	}
	injectorCoverage(c, st, queries)
	c.Coverage["environment"] = "any subset of fallible providers fails; caller never cancels; all interleavings and select choices"
	return nil
}

// checkC07: cancellation never hangs the injector nor yields a silent partial result.
func checkC07(c *Ctx) error {
	c.Level = "model_checking"
	progs := corpusFor(c)
	var queries int
	st, err := forEachInjector(c, progs, func(ic *InjCase) {
		e := ic.Enc
		if len(ic.Prog.Threads) < 2 && !hasCtxParam(ic) {
			return
		}
		env := []string{"cancelled"}
		if !c.Thorough() {
			env = append(env, e.NoFailTerm())
		}
		q := func(extra ...string) (smt.Verdict, map[string]string) {
			c.mu.Lock()
			queries++
			c.mu.Unlock()
			return ic.Query(true, append(append([]string{}, env...), extra...)...)
		}
		// (a) hang
		if v, m := q(e.PsiTerm(), smt.Not(e.Returned(0))); v == smt.Sat {
			sig := map[string]string{"kind": "hang", "blocked": blockedSummary(ic, m), "has-error-result": fmt.Sprint(ic.Prog.HasErrRes)}
			ic.report(sig, m, "hang")
			// one model per query would let a listed finding mask another hang of the
			// same injector: ask again for a final state in which some thread is parked
			// at a site the matched finding does not mention
			if c.MatchKnown(sig) != nil {
				if other := parkedElsewhere(ic, sig["blocked"]); other != "" {
					if v2, m2 := q(e.PsiTerm(), smt.Not(e.Returned(0)), other); v2 == smt.Sat {
						ic.report(map[string]string{"kind": "hang", "blocked": blockedSummary(ic, m2), "has-error-result": fmt.Sprint(ic.Prog.HasErrRes)}, m2, "hang2")
					}
				}
			}
		} else if v == smt.Unknown {
			c.Inconclusive("hang query unknown for " + ic.Name())
		}
		// (b) silent partial result: nil error and a value other than the reference
		for _, r := range e.Returns {
			if r.Ev.Err != "Nil" && !strings.HasPrefix(r.Ev.Err, "werr_") {
				continue
			}
			extra := []string{r.X}
			if strings.HasPrefix(r.Ev.Err, "werr_") {
				extra = append(extra, "(= "+r.Ev.Err+" Nil)")
			}
			if ic.Ref.Valid {
				extra = append(extra, "(not (= "+r.Ev.Ret+" "+ic.Ref.Result+"))")
			} else {
				extra = append(extra, "(= "+r.Ev.Ret+" ZEROV)")
			}
			if v, m := q(extra...); v == smt.Sat {
				ic.report(map[string]string{"kind": "silent-partial", "return-site": r.Ev.Site, "has-error-result": fmt.Sprint(ic.Prog.HasErrRes)}, m, "partial")
			} else if v == smt.Unknown {
				c.Inconclusive("partial-result query unknown for " + ic.Name())
			} else if !c.Thorough() && len(e.Fails) > 0 {
				// the same with provider failures free (a provider may fail because of the
				// cancellation): still no nil-error return of anything but the complete result
				c.mu.Lock()
				queries++
				c.mu.Unlock()
				if v, m := ic.Query(true, append([]string{"cancelled", e.SomeFailure()}, extra...)...); v == smt.Sat {
					ic.report(map[string]string{"kind": "silent-partial", "return-site": r.Ev.Site, "has-error-result": fmt.Sprint(ic.Prog.HasErrRes), "provider-failed": "true"}, m, "partialf")
				} else if v == smt.Unknown {
					c.Inconclusive("partial-result-with-failure query unknown for " + ic.Name())
				}
			}
		}
	})
	if err != nil {
		return err
	}
	injectorCoverage(c, st, queries)
	c.Coverage["environment"] = "caller cancels at a free instant (including before the call); all interleavings and select choices; thorough: provider failures free as well"
	return nil
}

func hasCtxParam(ic *InjCase) bool {
	for _, t := range ic.Prog.ParamTerms {
		if t == "in_ctx" {
			return true
		}
	}
	return false
}

// checkC08: no goroutine outlives the injector blocked forever.
func checkC08(c *Ctx) error {
	c.Level = "model_checking"
	progs := corpusFor(c)
	var queries int
	st, err := forEachInjector(c, progs, func(ic *InjCase) {
		e := ic.Enc
		if len(ic.Prog.Threads) < 2 {
			return
		}
		for _, r := range e.Returns {
			var parked []string
			for g := 1; g < e.Threads; g++ {
				parked = append(parked, fmt.Sprintf("(and %s (not %s))", e.Spawned(g), e.Returned(g)))
			}
			c.mu.Lock()
			queries++
			c.mu.Unlock()
			// final state: the caller acts no more (a cancellation, if any, happened before the return)
			v, m := ic.Query(true, r.X, e.PsiTerm(), fmt.Sprintf("(=> cancelled (< T_cancel %s))", r.C), smt.Or(parked...))
			if v == smt.Sat {
				// did a goroutine's failure cancel the group context in this execution?
				groupCancelled := "false"
				for g := 1; g < e.Threads; g++ {
					for _, rt := range e.Rets[g] {
						if rt.Ev.Err != "Nil" && m[rt.X] == "true" {
							groupCancelled = "true"
						}
					}
				}
				sig := map[string]string{"kind": "parked-goroutine", "parked-at": blockedSummary(ic, m), "main-returned-at": r.Ev.Site, "group-ctx-cancelled": groupCancelled, "caller-cancelled": m["cancelled"]}
				ic.report(sig, m, "leak")
				if c.MatchKnown(sig) != nil {
					// look past the listed finding: a goroutine parked at another kind of site,
					// or parked although the group context was cancelled or the caller cancelled
					var alts []string
					if other := parkedElsewhere(ic, sig["parked-at"]); other != "" {
						alts = append(alts, other)
					}
					var failedRet []string
					for g := 1; g < e.Threads; g++ {
						for _, rt := range e.Rets[g] {
							if rt.Ev.Err != "Nil" {
								failedRet = append(failedRet, rt.X)
							}
						}
					}
					if len(failedRet) > 0 {
						alts = append(alts, smt.Or(failedRet...))
					}
					alts = append(alts, "cancelled")
					c.mu.Lock()
					queries++
					c.mu.Unlock()
					if v2, m2 := ic.Query(true, r.X, e.PsiTerm(), fmt.Sprintf("(=> cancelled (< T_cancel %s))", r.C), smt.Or(parked...), smt.Or(alts...)); v2 == smt.Sat {
						gc := "false"
						for g := 1; g < e.Threads; g++ {
							for _, rt := range e.Rets[g] {
								if rt.Ev.Err != "Nil" && m2[rt.X] == "true" {
									gc = "true"
								}
							}
						}
						ic.report(map[string]string{"kind": "parked-goroutine", "parked-at": blockedSummary(ic, m2), "main-returned-at": r.Ev.Site, "group-ctx-cancelled": gc, "caller-cancelled": m2["cancelled"]}, m2, "leak2")
					}
				}
			} else if v == smt.Unknown {
				c.Inconclusive("leak query unknown for " + ic.Name())
			}
		}
	})
	if err != nil {
		return err
	}
	injectorCoverage(c, st, queries)
	c.Coverage["environment"] = "any subset of fallible providers fails; caller cancels at any instant before the return or never; all interleavings and select choices"
	return nil
}

// checkC05: input-free Async providers can all be inside their function at once,
// and none of them waits for another Async provider.
func checkC05(c *Ctx) error {
	c.Level = "model_checking"
	qn := 13
	if c.Thorough() {
		qn = 16
	}
	if err := queueLemma(c, qn); err != nil {
		return err
	}
	progs := corpusFor(c)
	var queries, sets int
	st, err := forEachInjector(c, progs, func(ic *InjCase) {
		e := ic.Enc
		if !ic.Ref.Valid {
			return
		}
		env := []string{e.NoFailTerm(), e.NoCancelTerm()}
		var Z []string
		var asyncAll []string
		for sym, a := range ic.Ref.Async {
			if a {
				asyncAll = append(asyncAll, sym)
				if ic.Ref.NoInputs[sym] {
					Z = append(Z, sym)
				}
			}
		}
		if len(Z) == 0 {
			return
		}
		enter := map[string]string{}
		exit := map[string]string{}
		occ := map[string]string{}
		for _, en := range e.Enters {
			if ex := e.Exits[en.Ev.Key]; ex != nil {
				enter[en.Ev.Prov], exit[en.Ev.Prov], occ[en.Ev.Prov] = en.C, ex.C, en.X
			}
		}
		c.mu.Lock()
		sets++
		c.mu.Unlock()
		// Q1: all of Z overlap at some instant
		if len(Z) >= 2 {
			var ts []string
			for _, z := range Z {
				if enter[z] == "" {
					continue
				}
				ts = append(ts, occ[z], fmt.Sprintf("(< %s Tov)", enter[z]), fmt.Sprintf("(< Tov %s)", exit[z]))
			}
			ic.Sol.Push()
			ic.Sol.Send("(declare-const Tov Int)")
			c.mu.Lock()
			queries++
			c.mu.Unlock()
			v, _ := ic.Query(false, append(env, ts...)...)
			ic.Sol.Pop()
			if v == smt.Unsat {
				sort.Strings(Z)
				ic.report(map[string]string{"kind": "no-overlap", "count": fmt.Sprint(len(Z)), "_barrier": strings.Join(Z, ",")}, map[string]string{}, "nooverlap")
			} else if v == smt.Unknown {
				c.Inconclusive("overlap query unknown for " + ic.Name())
			}
		}
		// Q2: each A in Z can be entered before any other Async provider has returned
		for _, a := range Z {
			for _, b := range asyncAll {
				if a == b || enter[a] == "" || exit[b] == "" {
					continue
				}
				c.mu.Lock()
				queries++
				c.mu.Unlock()
				v, _ := ic.Query(false, append(env, occ[a], occ[b], fmt.Sprintf("(< %s %s)", enter[a], exit[b]))...)
				if v == smt.Unsat {
					ic.report(map[string]string{"kind": "ordered-after-async", "other-has-inputs": fmt.Sprint(!ic.Ref.NoInputs[b]), "_barrier": b + "," + a}, map[string]string{}, "ordered-"+a+"-"+b)
				} else if v == smt.Unknown {
					c.Inconclusive("ordering query unknown for " + ic.Name())
				}
			}
		}
	})
	if err != nil {
		return err
	}
	injectorCoverage(c, st, queries)
	c.Coverage["async_input_free_sets"] = sets
	c.Coverage["environment"] = "existential: a schedule must exist (sat is the good answer); no failure, no cancellation"
	return nil
}

// parkedElsewhere returns a constraint saying that some thread is parked at a
// blocking site whose description does not occur in knownSites ("" if every
// blocking site of the injector is already named there).
func parkedElsewhere(ic *InjCase, knownSites string) string {
	var ts []string
	for _, n := range ic.Enc.BlockingNodes() {
		who := "main"
		if n.Thread > 0 {
			who = "goroutine"
		}
		if strings.Contains(knownSites, who+":"+n.Ev.Site) {
			continue
		}
		ts = append(ts, ic.Enc.Parked(n))
	}
	if len(ts) == 0 {
		return ""
	}
	return smt.Or(ts...)
}
