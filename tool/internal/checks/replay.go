package checks

import (
	"encoding/json"
	"fmt"
	"os"
)

// Replay re-runs a stored counterexample artefact.
func Replay(path string) error {
	data, err := os.ReadFile(path)
	if err != nil {
		return err
	}
	var doc struct {
		Property string         `json:"property"`
		Artefact map[string]any `json:"artefact"`
	}
	if err := json.Unmarshal(data, &doc); err != nil {
		return err
	}
	fn := Replays[doc.Property]
	if fn == nil {
		return fmt.Errorf("no replay for property %s", doc.Property)
	}
	return fn(path)
}
