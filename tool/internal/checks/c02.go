package checks

import (
	"fmt"
	"strings"

	"kverif/internal/smt"
)

func init() { Registry["C02"] = checkC02 }

// checkC02: the injector's result equals sequential evaluation of the declared
// graph: result term equal to the reference term under every interpretation of
// the providers (uninterpreted functions) and every interleaving; every needed
// provider invoked exactly once with the reference's argument terms; unneeded
// providers never invoked. All Async subsets / Set groupings / parameter orders
// of a base declaration share one reference term.
func checkC02(c *Ctx) error {
	c.Level = "translation_validation"
	progs := corpusFor(c)
	var queries, compared int
	st, err := forEachInjector(c, progs, func(ic *InjCase) {
		e := ic.Enc
		ref := ic.Ref
		if !ref.Valid {
			c.Inconclusive("reference evaluator rejects an accepted declaration: " + ic.Name() + ": " + ref.Why)
			return
		}
		env := []string{e.NoFailTerm(), e.NoCancelTerm()}
		q := func(extra ...string) (smt.Verdict, map[string]string) {
			c.mu.Lock()
			queries++
			c.mu.Unlock()
			return ic.Query(true, append(append([]string{}, env...), extra...)...)
		}
		c.mu.Lock()
		compared++
		c.mu.Unlock()
		// result term
		for _, r := range e.Returns {
			v, m := q(r.X, "(not (= "+r.Ev.Ret+" "+ref.Result+"))")
			if v == smt.Sat {
				ic.report(map[string]string{"kind": "result-differs", "return-site": r.Ev.Site, "_expect_result": nativeID(ref.Result)}, m, "result")
			} else if v == smt.Unknown {
				c.Inconclusive("result query unknown for " + ic.Name())
			}
		}
		// calls: needed exactly once with the reference's arguments, unneeded never
		byProv := map[string][]int{}
		for i, en := range e.Enters {
			byProv[en.Ev.Prov] = append(byProv[en.Ev.Prov], i)
		}
		for _, p := range ref.Unneeded {
			for _, i := range byProv[p] {
				if v, m := q(e.Enters[i].X); v == smt.Sat {
					ic.report(map[string]string{"kind": "unneeded-provider-invoked", "_prov": p}, m, "unneeded-"+p)
				}
			}
		}
		for _, p := range ref.Needed {
			idx := byProv[p]
			if len(idx) == 0 {
				ic.report(map[string]string{"kind": "needed-provider-never-invoked", "_prov": p}, map[string]string{}, "missing-"+p)
				continue
			}
			// invoked on the success path
			var occ []string
			for _, i := range idx {
				occ = append(occ, e.Enters[i].X)
			}
			for _, r := range e.Returns {
				if r.Ev.Err != "Nil" && !strings.HasPrefix(r.Ev.Err, "werr_") {
					continue
				}
				if v, m := q(r.X, smt.Not(smt.Or(occ...))); v == smt.Sat {
					ic.report(map[string]string{"kind": "needed-provider-skipped", "_prov": p}, m, "skipped-"+p)
				}
			}
			// at most once
			for a := 0; a < len(idx); a++ {
				for b := a + 1; b < len(idx); b++ {
					if v, m := q(e.Enters[idx[a]].X, e.Enters[idx[b]].X); v == smt.Sat {
						ic.report(map[string]string{"kind": "provider-invoked-twice", "_prov": p}, m, "twice-"+p)
					}
				}
			}
			// argument terms
			want := strings.Fields(splitTop(ref.Calls[p]))
			_ = want
			for _, i := range idx {
				en := e.Enters[i]
				wantArgs := splitArgs(ref.Calls[p])
				if len(wantArgs) != len(en.Ev.Args) {
					ic.report(map[string]string{"kind": "argument-count-differs"}, map[string]string{}, "argc-"+p)
					continue
				}
				var ne []string
				for k := range wantArgs {
					ne = append(ne, "(not (= "+en.Ev.Args[k]+" "+wantArgs[k]+"))")
				}
				if len(ne) == 0 {
					continue
				}
				if v, m := q(en.X, smt.Or(ne...)); v == smt.Sat {
					ic.report(map[string]string{"kind": "argument-differs", "thread": threadKind(en.Thread), "_prov": p, "_expect_args": nativeArgs(wantArgs)}, m, "arg-"+p)
				} else if v == smt.Unknown {
					c.Inconclusive("argument query unknown for " + ic.Name())
				}
			}
		}
	})
	if err != nil {
		return err
	}
	injectorCoverage(c, st, queries)
	c.Coverage["programs"] = compared
	c.Coverage["disagreements_checked"] = queries
	c.Coverage["environment"] = "fault-free, no cancellation; argument values and provider behaviour uninterpreted (every interpretation); all interleavings"
	c.Assume("reference = Appendix B evaluator over the abstract declaration (type -> supplier through Bind / Struct fields / multi-result / Value; unsupplied -> parameter); it knows nothing about pools, channels or order")
	return nil
}

func splitTop(s string) string { return s }

// splitArgs splits "a (f b c) d" into top-level terms.
func splitArgs(s string) []string {
	var out []string
	depth, start := 0, -1
	for i, ch := range s {
		switch {
		case ch == '(':
			if depth == 0 && start < 0 {
				start = i
			}
			depth++
		case ch == ')':
			depth--
			if depth == 0 {
				out = append(out, s[start:i+1])
				start = -1
			}
		case ch == ' ':
			if depth == 0 && start >= 0 {
				out = append(out, s[start:i])
				start = -1
			}
		default:
			if start < 0 {
				start = i
			}
		}
	}
	if start >= 0 {
		out = append(out, s[start:])
	}
	return out
}

var _ = fmt.Sprint
