package checks

import (
	"crypto/sha256"
	"encoding/json"
	"fmt"
	"os"
	"path/filepath"
	"regexp"
	"sort"
	"strings"
	"time"

	"kverif/internal/load"
	"kverif/internal/symx"
)

func init() { Registry["C15"] = checkC15 }

// fsObs is what the native fault-injection replay observed.
type fsObs struct {
	ChildExit int               `json:"child_exit"`
	ChildErr  bool              `json:"child_err"`
	Dest      map[string]string `json:"dest"`
	TempLeft  []string          `json:"temp_left"`
	Trace     []string          `json:"trace"`
	SecondRun string            `json:"second_run"`
}

var osCallRe = regexp.MustCompile(`\bos\.(MkdirAll|CreateTemp|OpenFile|Chmod|Rename|Remove|WriteFile|Create)\(`)

// prepareFSReplay routes install.go's os calls through the shim (mechanical
// rewrite of the current source in the scratch copy).
func prepareFSReplay(k *Kernel) error {
	dir := filepath.Join(k.S.Repo, "internal/llmsetup")
	src, err := os.ReadFile(filepath.Join(dir, "install.go"))
	if err != nil {
		return err
	}
	// helper functions of install.go that pass the file along see the shim's file type
	src = regexp.MustCompile(`\*os\.File\b`).ReplaceAll(src, []byte("*verifFile"))
	if err := os.WriteFile(filepath.Join(dir, "install.go"), osCallRe.ReplaceAll(src, []byte("verifos.$1(")), 0o644); err != nil {
		return err
	}
	for from, to := range map[string]string{"llmsetup_shim.go.txt": "zz_verif_shim.go", "llmsetup_shim_test.go.txt": "zz_verif_shim_test.go"} {
		data, err := os.ReadFile(filepath.Join(load.VerifDir(), "harness", from))
		if err != nil {
			return err
		}
		if err := os.WriteFile(filepath.Join(dir, to), data, 0o644); err != nil {
			return err
		}
	}
	return nil
}

func replayFS(k *Kernel, crashAt, faultAt int, short bool, prior ...bool) (*fsObs, error) {
	sw := "0"
	if short {
		sw = "1"
	}
	pr := "0"
	if len(prior) > 0 && prior[0] {
		pr = "1"
	}
	env := []string{"VERIF_FS_REPLAY=1", "VERIF_PRIOR_R=" + pr, fmt.Sprintf("VERIF_CRASH_AT_R=%d", crashAt), fmt.Sprintf("VERIF_FAULT_AT_R=%d", faultAt), "VERIF_SHORT_WRITE_R=" + sw}
	out, err := load.Run(k.S.Repo, true, 3*time.Minute, env, "go", "test", "-vet=off", "-count=1", "-run", "^TestVerifFSReplay$", "-v", "./internal/llmsetup")
	for _, l := range strings.Split(string(out), "\n") {
		if i := strings.Index(l, "VERIF-FS-OBS "); i >= 0 {
			var o fsObs
			if json.Unmarshal([]byte(l[i+len("VERIF-FS-OBS "):]), &o) == nil {
				return &o, nil
			}
		}
	}
	return nil, fmt.Errorf("no observation (%v): %s", err, lastLines(string(out), 6))
}

type embTree struct {
	rel  []string          // relative paths, sorted
	hash map[string]string // rel -> content hash
}

func readEmbTree(root string) (*embTree, error) {
	t := &embTree{hash: map[string]string{}}
	err := filepath.Walk(root, func(p string, info os.FileInfo, err error) error {
		if err != nil {
			return err
		}
		if info.IsDir() {
			return nil
		}
		rel, _ := filepath.Rel(root, p)
		data, err := os.ReadFile(p)
		if err != nil {
			return err
		}
		h := sha256.Sum256(data)
		t.rel = append(t.rel, rel)
		t.hash[rel] = fmt.Sprintf("%x", h[:8])
		return nil
	})
	sort.Strings(t.rel)
	return t, err
}

// checkC15: skill installation is atomic per file under crashes and errors.
func checkC15(c *Ctx) error {
	c.Level = "other"
	c.KernelSolver, c.KernelIncremental = "z3", true
	k, err := NewKernel(c, "internal/llmsetup", "llmsetup", "llmsetup_install.go")
	if err != nil {
		return err
	}
	defer k.Close(c)
	srcRoot := filepath.Join(k.S.Repo, "internal/llmsetup")
	tree, err := readEmbTree(filepath.Join(srcRoot, "skills/kessoku-di"))
	if err != nil {
		return err
	}
	symx.InstallFSStubs(k.E, srcRoot)
	k.E.MaxSteps = 3_000_000
	fn := k.Pkg.Func("verifHarnessInstall")
	if fn == nil {
		return fmt.Errorf("harness function missing")
	}
	agents := []int{0}
	if c.Thorough() {
		agents = []int{0, 1, 2, 3, 4, 5, 6, 7, 8}
	}
	const base = "/base"
	var paths, crashes, faults, clean, oblig int
	crashSteps := map[int]bool{}
	faultSteps := map[string]bool{}
	reported := map[string]bool{}
	type pendingV struct {
		sig          map[string]string
		art          map[string]any
		crash, fault int
		short        bool
		prior        bool
	}
	var pend []pendingV
	cur := struct {
		crash, fault int
		short        bool
		prior        bool
	}{-1, -1, false, false}
	violation := func(sig map[string]string, art map[string]any) {
		key := sigString(sig)
		if reported[key] {
			return
		}
		reported[key] = true
		pend = append(pend, pendingV{sig, art, cur.crash, cur.fault, cur.short, cur.prior})
	}
	type valPoint struct {
		crash, fault int
		short        bool
		dest         map[string]string
		trace        []string
		errNil       bool
	}
	var valPoints []valPoint
	// states left behind by crashed or failed runs (agent 0), to be followed by a later run
	type leftover struct {
		files        map[string]symx.FSNode
		when, after  string
		crash, fault int
		short, prior bool
		dirs         bool
	}
	leftovers := map[string]*leftover{}
	for _, ai := range agents {
		for baseState := 0; baseState <= 2; baseState++ {
			// 0: base absent, 1: base directory exists, 2: base holds a previous installation
			// (older content, mode 0644)
			baseClass, prior := baseState, false
			if baseState == 2 {
				baseClass, prior = 1, true
			}
			ai, baseClass, prior := ai, baseClass, prior
			priorContent := map[string]string{}
			results := k.E.Run(fn, func(ps *symx.PathState) []any {
				m := symx.NewFSModel(ps, "fault", srcRoot)
				m.BaseClass = baseClass
				m.Cwd, m.Home = "/cwd", "/home/u"
				if prior {
					for _, rel := range tree.rel {
						data, _ := os.ReadFile(filepath.Join(srcRoot, "skills/kessoku-di", rel))
						p := filepath.Join(base, "kessoku-di", rel)
						m.SetPrior(p, append([]byte("old "), data...), 0o644)
						priorContent[rel] = m.Prior[p].Content
					}
				}
				ps.User = m
				return []any{symx.IntArg(ai), base, false}
			}, func(ps *symx.PathState, r *symx.PathResult) {
				m := ps.User.(*symx.FSModel)
				paths++
				cur.crash, cur.fault, cur.short, cur.prior = -1, m.Faulted, m.ShortWrite, prior
				if m.Crashed {
					cur.crash = m.CrashStep
				}
				dest := func(rel string) string { return filepath.Join(base, "kessoku-di", rel) }
				lastOp := "start"
				if len(m.Events) > 0 {
					lastOp = m.Events[len(m.Events)-1].Op
				}
				trace := func() []string {
					var out []string
					for _, ev := range m.Events {
						out = append(out, fmt.Sprintf("%d %s %v %v %s", ev.Step, ev.Op, ev.Path, ev.Dst, ev.Note))
					}
					return out
				}
				// destination files: untouched (absent, or the previous installation's file
				// intact), or complete with final permissions
				stateOf := func(rel string) string {
					n := m.Effective(dest(rel))
					switch {
					case n == nil:
						return "absent"
					case prior && n.Content == priorContent[rel] && n.Mode == 0o644:
						return "previous"
					case n.Content == "full:"+tree.hash[rel] && n.Mode == 0o644:
						return "new"
					}
					return strings.SplitN(n.Content, ":", 2)[0] + fmt.Sprintf("/%o", n.Mode)
				}
				checkDests := func(when string) {
					for _, rel := range tree.rel {
						oblig++
						st := stateOf(rel)
						switch {
						case st == "new" || st == "previous":
						case st == "absent" && (!prior || when == "crash"):
							// a crash may leave a file absent (the statement allows it); an error
							// return must leave the previous file where it was
						case st == "absent":
							violation(map[string]string{"kind": "previous destination file lost", "when": when, "after": lastOp},
								map[string]any{"file": rel, "trace": trace()})
						default:
							violation(map[string]string{"kind": "destination not atomic", "when": when, "after": lastOp, "state": st},
								map[string]any{"file": rel, "node": m.Effective(dest(rel)), "trace": trace()})
						}
					}
				}
				switch {
				case m.Crashed:
					crashes++
					crashSteps[m.Step] = true
					checkDests("crash")
				case strings.HasPrefix(r.Outcome, "ok"):
					ret := []any{symx.TupleAt(r.Ret, 0), symx.TupleAt(r.Ret, 1)}
					errNil := symx.IsNilIface(ret[1])
					if m.Faulted >= 0 {
						faults++
						faultSteps[fmt.Sprintf("%s@%d", m.FaultOp, m.Faulted)] = true
						oblig += 2
						if errNil {
							violation(map[string]string{"kind": "failure not reported", "after": m.FaultOp}, map[string]any{"trace": trace()})
						}
						for key, n := range m.Nodes {
							if n.Temp {
								violation(map[string]string{"kind": "temporary file left behind", "after": m.FaultOp}, map[string]any{"path": key, "trace": trace()})
							}
						}
						checkDests("error")
					} else {
						clean++
						oblig += 2 + len(tree.rel)
						if !errNil {
							violation(map[string]string{"kind": "fault-free run fails", "after": lastOp}, map[string]any{"err": symx.ErrID(ret[1]), "trace": trace()})
						}
						for _, rel := range tree.rel {
							if st := stateOf(rel); st != "new" {
								violation(map[string]string{"kind": "installation incomplete", "after": lastOp}, map[string]any{"file": rel, "state": st, "trace": trace()})
							}
						}
						for key, n := range m.Nodes {
							if n.Temp {
								violation(map[string]string{"kind": "temporary file left behind", "after": "success"}, map[string]any{"path": key})
							}
						}
					}
				default:
					c.Inconclusive(fmt.Sprintf("agent %d base-state %d: path outcome %s", ai, baseState, r.Outcome))
				}
				if ai == 0 && (m.Crashed || m.Faulted >= 0) {
					snap := m.Snapshot()
					var keys []string
					for k, n := range snap {
						keys = append(keys, fmt.Sprintf("%s=%s/%o", k, n.Content, n.Mode))
					}
					sort.Strings(keys)
					key := strings.Join(keys, ";")
					if _, ok := leftovers[key]; !ok {
						when := "error"
						if m.Crashed {
							when = "crash"
						}
						leftovers[key] = &leftover{files: snap, when: when, after: lastOp, crash: cur.crash, fault: cur.fault, short: cur.short, prior: prior, dirs: len(m.Dirs) > 0 || baseClass == 1}
					}
				}
				// sample of model paths to be compared with native runs (translator validation)
				if ai == 0 && baseClass == 0 && !prior && (paths%29 == 3 || (!m.Crashed && m.Faulted < 0)) && len(valPoints) < 8 {
					vp := valPoint{crash: cur.crash, fault: cur.fault, short: cur.short, dest: map[string]string{}}
					for _, rel := range tree.rel {
						n := m.Nodes[dest(rel)]
						switch {
						case n == nil:
							vp.dest[rel] = "absent"
						case n.Content == "full:"+tree.hash[rel] && n.Mode == 0o644:
							vp.dest[rel] = "full/644"
						default:
							vp.dest[rel] = "other"
						}
					}
					for _, ev := range m.Events {
						if ev.Op != "stat" && ev.Op != "write-interrupted" {
							op := ev.Op
							if op == "write-short" {
								op = "write-failed" // the shim reports both as a failed write
							}
							vp.trace = append(vp.trace, op)
						}
					}
					if strings.HasPrefix(r.Outcome, "ok") {
						vp.errNil = symx.IsNilIface(symx.TupleAt(r.Ret, 1))
					}
					valPoints = append(valPoints, vp)
				}
				if paths == 40 {
					c.Sample(map[string]any{"path": paths, "crashed": m.Crashed, "fault_at": m.Faulted, "fault_op": m.FaultOp, "trace": trace()})
				}
			})
			_ = results
		}
	}
	// --- a later fault-free run completes the installation from every state left behind ----
	laterRuns := 0
	var lkeys []string
	for k := range leftovers {
		lkeys = append(lkeys, k)
	}
	sort.Strings(lkeys)
	for _, lk := range lkeys {
		lo := leftovers[lk]
		k.E.Run(fn, func(ps *symx.PathState) []any {
			m := symx.NewFSModel(ps, "trace", srcRoot)
			m.BaseClass = 0
			if lo.dirs {
				m.BaseClass = 1
			}
			m.Cwd, m.Home = "/cwd", "/home/u"
			for p, n := range lo.files {
				m.SetPriorNode(p, n)
			}
			ps.User = m
			return []any{symx.IntArg(0), base, false}
		}, func(ps *symx.PathState, r *symx.PathResult) {
			m := ps.User.(*symx.FSModel)
			laterRuns++
			oblig++
			cur.crash, cur.fault, cur.short, cur.prior = lo.crash, lo.fault, lo.short, lo.prior
			bad := ""
			switch {
			case !strings.HasPrefix(r.Outcome, "ok"):
				c.Inconclusive("later run: path outcome " + r.Outcome)
				return
			case !symx.IsNilIface(symx.TupleAt(r.Ret, 1)):
				bad = "the later run fails: " + symx.ErrID(symx.TupleAt(r.Ret, 1))
			default:
				for _, rel := range tree.rel {
					n := m.Effective(filepath.Join(base, "kessoku-di", rel))
					if n == nil || n.Content != "full:"+tree.hash[rel] || n.Mode != 0o644 {
						bad = "the later run leaves " + rel + " incomplete"
					}
				}
			}
			if bad != "" {
				var tr []string
				for _, ev := range m.Events {
					tr = append(tr, fmt.Sprintf("%s %v %v %s", ev.Op, ev.Path, ev.Dst, ev.Note))
				}
				violation(map[string]string{"kind": "later run does not complete the installation", "first-run": lo.when, "after": lo.after}, map[string]any{"why": bad, "left_behind": lk, "second_run_trace": tr})
			}
		})
	}
	c.Coverage["later_runs_from_leftover_states"] = laterRuns
	// --- native replay: confirm counterexamples, validate the filesystem stubs ----
	if err := prepareFSReplay(k); err != nil {
		return err
	}
	validated, mismatches := 0, []string{}
	for _, vp := range valPoints {
		o, err := replayFS(k, vp.crash, vp.fault, vp.short)
		if err != nil {
			mismatches = append(mismatches, "native run failed: "+err.Error())
			continue
		}
		validated++
		for rel, want := range vp.dest {
			got := o.Dest[rel]
			if strings.HasPrefix(got, "other") {
				got = "other"
			}
			if got != want {
				mismatches = append(mismatches, fmt.Sprintf("crash=%d fault=%d: %s is %s natively, %s in the model", vp.crash, vp.fault, rel, o.Dest[rel], want))
			}
		}
		if vp.crash < 0 && strings.Join(o.Trace, ",") != strings.Join(vp.trace, ",") {
			mismatches = append(mismatches, fmt.Sprintf("fault=%d: native operation trace %v differs from the model's %v", vp.fault, o.Trace, vp.trace))
		}
		if vp.crash < 0 && o.ChildErr == vp.errNil {
			mismatches = append(mismatches, fmt.Sprintf("fault=%d: error reported natively=%v, model=%v", vp.fault, o.ChildErr, !vp.errNil))
		}
	}
	c.Coverage["traces_validated_against_impl"] = validated
	c.Coverage["stub_validation_mismatches"] = mismatches
	for _, p := range pend {
		if c.MatchKnown(p.sig) == nil {
			o, err := replayFS(k, p.crash, p.fault, p.short, p.prior)
			confirmed := false
			if err == nil {
				switch p.sig["kind"] {
				case "destination not atomic":
					for _, s := range o.Dest {
						if strings.HasPrefix(s, "other") {
							confirmed = true
						}
					}
				case "previous destination file lost":
					for _, s := range o.Dest {
						if s == "absent" {
							confirmed = true
						}
					}
				case "temporary file left behind":
					confirmed = len(o.TempLeft) > 0
				case "failure not reported":
					confirmed = p.fault >= 0 && o.ChildExit == 0
				case "installation incomplete", "fault-free run fails", "later run does not complete the installation":
					confirmed = o.SecondRun != "complete" || o.ChildExit != 0
				}
				p.art["native_observation"] = o
			}
			if !confirmed {
				c.Inconclusive(fmt.Sprintf("UNCONFIRMED counterexample %s (crash=%d fault=%d): native fault injection did not reproduce it (%v)", sigString(p.sig), p.crash, p.fault, err))
				continue
			}
		}
		c.Sample(map[string]any{"violation": p.sig, "detail": p.art})
		c.Report(p.sig, p.art, "C15-"+strings.ReplaceAll(p.sig["kind"], " ", "-")+"-"+p.sig["after"])
	}
	if len(mismatches) > 0 && c.Violations == 0 {
		return fmt.Errorf("filesystem stub validation failed: %s", mismatches[0])
	}
	engineCoverage(c, k.E, "")
	c.Coverage["explanation"] = fmt.Sprintf("Symbolic execution of the real Install/InstallFile (go/ssa, including the deferred cleanup closure) with every os call replaced by a nondeterministic stub: the crash position and the failing step are symbolic integers, every branch on them is decided by z3; %d paths = %d crash points (between and inside steps) + %d single-fault runs (incl. short writes) + %d fault-free runs over the embedded tree of %d files; obligations per path are evaluated on the model filesystem: every destination is untouched or complete with mode 0644 at any crash/failure, a failure is reported and leaves no temp file, a fault-free run installs the complete tree.", paths, crashes, faults, clean, len(tree.rel))
	c.Coverage["obligations"] = oblig
	c.Coverage["evaluations"] = paths
	c.Coverage["distinct_nontrivial"] = len(crashSteps) + len(faultSteps)
	c.Coverage["rule"] = "one evaluation = one explored path; distinct_nontrivial = distinct crash positions + distinct (operation, step) fault positions reached"
	c.Coverage["crash_points"] = len(crashSteps)
	c.Coverage["fault_points"] = len(faultSteps)
	c.Coverage["bounds"] = map[string]any{"tree": tree.rel, "faults_per_run": 1, "outside": "power loss (page cache), concurrent installers, double faults, a crash during the cleanup after a fault is included"}
	c.Assume("filesystem stubs: each os call either fails with no effect (Write may leave a strict prefix) or has its POSIX effect; Rename is an atomic replace; CreateTemp returns a fresh name; a crash discards nothing applied and applies nothing further")
	c.Assume("embed.FS = the directory internal/llmsetup/skills/kessoku-di of the working tree, walked in lexical order")
	if clean == 0 || crashes == 0 || faults == 0 {
		return fmt.Errorf("vacuity guard: clean=%d crashes=%d faults=%d", clean, crashes, faults)
	}
	return nil
}
