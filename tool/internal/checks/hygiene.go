package checks

import (
	"fmt"
	"go/ast"
	"go/token"
	"go/types"
	"sort"
	"strings"

	"kverif/internal/corpus"
	"kverif/internal/pipeline"
)

var goKeywords = map[string]bool{"break": true, "default": true, "func": true, "interface": true, "select": true, "case": true, "defer": true, "go": true, "map": true, "struct": true, "chan": true, "else": true, "goto": true, "package": true, "switch": true, "const": true, "fallthrough": true, "if": true, "range": true, "type": true, "continue": true, "for": true, "import": true, "return": true, "var": true}

// hygieneFindings inspects the generated functions of a loaded item: every
// identifier declared inside a generated function (parameters, variables) must
// differ from every package-level name of the user's package, every predeclared
// identifier and every import name used by the generated file.
func hygieneFindings(it *pipeline.Item) []string {
	var out []string
	if it.Types == nil || it.Info == nil {
		return nil
	}
	pkgNames := map[string]bool{}
	for _, n := range it.Types.Scope().Names() {
		pkgNames[n] = true
	}
	for _, f := range it.Files {
		fname := ""
		if len(f.Decls) > 0 {
			fname = fileOf(it, f)
		}
		if !strings.HasSuffix(fname, "_band.go") {
			continue
		}
		// functions declared by this very file are generated entities of another
		// scope level; shadowing one of them inside a sibling is harmless and
		// outside the property (the property speaks of names already declared
		// when the file is generated: user files and earlier outputs)
		own := map[string]bool{}
		for _, d := range f.Decls {
			if fd, ok := d.(*ast.FuncDecl); ok {
				own[fd.Name.Name] = true
			}
		}
		imports := map[string]bool{}
		for _, im := range f.Imports {
			if obj, ok := it.Info.Implicits[im].(*types.PkgName); ok {
				imports[obj.Name()] = true
			} else if im.Name != nil {
				imports[im.Name.Name] = true
			}
		}
		// import names the generator introduced itself (paths no user file of the package
		// imports): not a package-level name, not predeclared, not a keyword, pairwise distinct
		userPaths := map[string]bool{}
		for _, uf := range it.Files {
			if strings.HasSuffix(fileOf(it, uf), "_band.go") {
				continue
			}
			for _, im := range uf.Imports {
				userPaths[strings.Trim(im.Path.Value, "\"")] = true
			}
		}
		seenImp := map[string]string{}
		for _, im := range f.Imports {
			path := strings.Trim(im.Path.Value, "\"")
			name := ""
			if obj, ok := it.Info.Implicits[im].(*types.PkgName); ok {
				name = obj.Name()
			} else if im.Name != nil {
				name = im.Name.Name
			} else if obj, ok := it.Info.Defs[im.Name].(*types.PkgName); ok {
				name = obj.Name()
			}
			if name == "" || name == "_" || name == "." {
				continue
			}
			if prev, dup := seenImp[name]; dup && prev != path {
				out = append(out, fmt.Sprintf("import name %q used for %s and %s", name, prev, path))
			}
			seenImp[name] = path
			if userPaths[path] {
				continue
			}
			switch {
			case pkgNames[name]:
				out = append(out, fmt.Sprintf("generated import %q of %s is a package-level identifier", name, path))
			case types.Universe.Lookup(name) != nil:
				out = append(out, fmt.Sprintf("generated import %q of %s is a predeclared identifier", name, path))
			case goKeywords[name]:
				out = append(out, fmt.Sprintf("generated import %q of %s is a keyword", name, path))
			}
		}
		for _, d := range f.Decls {
			fd, ok := d.(*ast.FuncDecl)
			if !ok {
				continue
			}
			ast.Inspect(fd, func(n ast.Node) bool {
				id, ok := n.(*ast.Ident)
				if !ok || id.Name == "_" {
					return true
				}
				obj := it.Info.Defs[id]
				if obj == nil || obj.Parent() == it.Types.Scope() {
					return true
				}
				if _, isVar := obj.(*types.Var); !isVar {
					return true
				}
				switch {
				case pkgNames[id.Name] && !own[id.Name]:
					out = append(out, fmt.Sprintf("%s: local %q shadows a package-level identifier", fd.Name.Name, id.Name))
				case types.Universe.Lookup(id.Name) != nil:
					out = append(out, fmt.Sprintf("%s: local %q is a predeclared identifier", fd.Name.Name, id.Name))
				case imports[id.Name]:
					out = append(out, fmt.Sprintf("%s: local %q shadows an import", fd.Name.Name, id.Name))
				case goKeywords[id.Name]:
					out = append(out, fmt.Sprintf("%s: local %q is a keyword", fd.Name.Name, id.Name))
				}
				return true
			})
		}
	}
	sort.Strings(out)
	return out
}

func fileOf(it *pipeline.Item, f *ast.File) string {
	// the loader parses with its own FileSet; positions resolve through it
	if it.Fset == nil {
		return ""
	}
	return it.Fset.Position(f.Pos()).Filename
}

// runGateCorpus generates and loads a corpus and returns the items.
func runGateCorpus(c *Ctx, tag string, progs []*corpus.Program) (*pipeline.Pipe, []*pipeline.Item, error) {
	pipe, err := pipeline.New(c.ID + "-" + tag)
	if err != nil {
		return nil, nil, err
	}
	pipe.Generate(progs, 16)
	ld, err := pipe.NewLoader()
	if err != nil {
		pipe.Close()
		return nil, nil, err
	}
	for _, it := range pipe.Items {
		if it.CLIErr == nil {
			ld.LoadItem(it)
		}
	}
	return pipe, pipe.Items, nil
}

var _ = token.NoPos
