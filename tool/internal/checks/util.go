package checks

import "sort"

func sortStrings(s []string) { sort.Strings(s) }
