package checks

import (
	"fmt"
	"go/types"
	"os"
	"path/filepath"
	"reflect"
	"regexp"
	"sort"
	"strings"

	"kverif/internal/symx"
)

func init() { Registry["C16"] = checkC16 }

type readmeAgent struct{ display, cli, project, user string }

func parseReadme(path string) (map[string]*readmeAgent, error) {
	data, err := os.ReadFile(path)
	if err != nil {
		return nil, err
	}
	text := string(data)
	out := map[string]*readmeAgent{}
	byDisplay := map[string]*readmeAgent{}
	if i := strings.Index(text, "**Supported agents:**"); i >= 0 {
		line := text[i:]
		line = line[:strings.IndexByte(line, '\n')]
		re := regexp.MustCompile("([A-Za-z][A-Za-z ]*?)\\(`([a-z-]+)`\\)")
		for _, m := range re.FindAllStringSubmatch(line, -1) {
			a := &readmeAgent{display: strings.TrimSpace(m[1]), cli: m[2]}
			out[a.cli] = a
			byDisplay[a.display] = a
		}
	}
	re := regexp.MustCompile("(?m)^- \\*\\*([^*]+):\\*\\* `([^`]+)` \\(project\\) or `([^`]+)` \\(user\\)")
	for _, m := range re.FindAllStringSubmatch(text, -1) {
		if a := byDisplay[strings.TrimSpace(m[1])]; a != nil {
			a.project = strings.TrimSuffix(m[2], "/")
			a.user = strings.TrimSuffix(strings.TrimPrefix(m[3], "~/"), "/")
		}
	}
	if len(out) == 0 {
		return nil, fmt.Errorf("README: agent list not found")
	}
	return out, nil
}

// checkC16: every agent installs the full skill tree exactly where documented.
func checkC16(c *Ctx) error {
	c.Level = "other"
	k, err := NewKernel(c, "internal/llmsetup", "llmsetup", "llmsetup_install.go")
	if err != nil {
		return err
	}
	defer k.Close(c)
	srcRoot := filepath.Join(k.S.Repo, "internal/llmsetup")
	tree, err := readEmbTree(filepath.Join(srcRoot, "skills/kessoku-di"))
	if err != nil {
		return err
	}
	readme, err := parseReadme(filepath.Join(k.S.Repo, "README.md"))
	if err != nil {
		return err
	}
	symx.InstallFSStubs(k.E, srcRoot)
	k.E.MaxSteps = 3_000_000
	k.E.Workers = 1
	fn := k.Pkg.Func("verifHarnessInstall")
	infoFn := k.Pkg.Func("verifAgentInfo")
	numFn := k.Pkg.Func("verifNumAgents")
	agentFn := k.Pkg.Func("verifAgent")
	if fn == nil || infoFn == nil || numFn == nil || agentFn == nil {
		return fmt.Errorf("harness function missing")
	}
	trace := func(ps *symx.PathState) { ps.User = symx.NewFSModel(ps, "trace", srcRoot) }
	var nAgents int
	for _, r := range k.E.Run(numFn, func(ps *symx.PathState) []any { trace(ps); return nil }, nil) {
		nAgents = r.Ret.(int)
	}
	type agentInfo struct{ name, skill, src, project, user, typ string }
	var infos []agentInfo
	for i := 0; i < nAgents; i++ {
		i := i
		var ai agentInfo
		for _, r := range k.E.Run(infoFn, func(ps *symx.PathState) []any { trace(ps); return []any{symx.IntArg(i)} }, nil) {
			ai = agentInfo{name: symx.TupleAt(r.Ret, 0).(string), skill: symx.TupleAt(r.Ret, 1).(string), src: symx.TupleAt(r.Ret, 2).(string), project: symx.TupleAt(r.Ret, 3).(string), user: symx.TupleAt(r.Ret, 4).(string)}
		}
		for _, r := range k.E.Run(agentFn, func(ps *symx.PathState) []any { trace(ps); return []any{symx.IntArg(i)} }, nil) {
			ai.typ = symx.DynTypeName(r.Ret)
		}
		infos = append(infos, ai)
	}
	reported := map[string]bool{}
	violation := func(sig map[string]string, art map[string]any) {
		key := sigString(sig)
		if reported[key] {
			return
		}
		reported[key] = true
		c.Sample(map[string]any{"violation": sig, "detail": art})
		c.Report(sig, art, "C16-"+strings.ReplaceAll(sig["kind"], " ", "-")+"-"+sig["agent"])
	}
	// --- static consistency: registry = kong sub-commands = README list -------
	var oblig int
	regNames := map[string]bool{}
	for _, ai := range infos {
		regNames[ai.name] = true
	}
	tagNames := map[string]string{} // cli name -> agent type in the command's type argument
	if tn, ok := k.Pkg.Pkg.Scope().Lookup("LLMSetupCmd").(*types.TypeName); ok {
		st := tn.Type().Underlying().(*types.Struct)
		re := regexp.MustCompile(`name='([^']+)'`)
		for i := 0; i < st.NumFields(); i++ {
			tag := reflect.StructTag(st.Tag(i)).Get("kong")
			if !strings.HasPrefix(tag, "cmd") || strings.Contains(tag, "hidden") {
				continue
			}
			m := re.FindStringSubmatch(tag)
			if m == nil {
				continue
			}
			targ := ""
			if nt, ok := types.Unalias(st.Field(i).Type()).(*types.Named); ok && nt.TypeArgs().Len() == 1 {
				targ = nt.TypeArgs().At(0).String()
			}
			tagNames[m[1]] = targ
		}
	}
	oblig += 3
	var regL, tagL, docL []string
	for n := range regNames {
		regL = append(regL, n)
	}
	for n := range tagNames {
		tagL = append(tagL, n)
	}
	for n := range readme {
		docL = append(docL, n)
	}
	sort.Strings(regL)
	sort.Strings(tagL)
	sort.Strings(docL)
	if strings.Join(regL, ",") != strings.Join(tagL, ",") || strings.Join(regL, ",") != strings.Join(docL, ",") || len(regL) != len(infos) {
		violation(map[string]string{"kind": "agent sets differ", "agent": "all"}, map[string]any{"registry": regL, "subcommands": tagL, "readme": docL})
	}
	for _, ai := range infos {
		oblig++
		if t, ok := tagNames[ai.name]; ok && t != ai.typ {
			violation(map[string]string{"kind": "subcommand bound to another agent", "agent": ai.name}, map[string]any{"subcommand_type": t, "registry_type": ai.typ})
		}
	}
	// --- path resolution and confinement, symbolic paths ----------------------
	var paths, mutEvents, queries int
	agents := infos
	if !c.Thorough() && os.Getenv("VERIF_ALL_AGENTS") == "" {
		// quick: every agent, but only base classes absent/file for all but the first
	}
	for idx, ai := range agents {
		doc := readme[ai.name]
		for _, user := range []bool{false, true} {
			for customKind := 0; customKind <= 2; customKind++ { // 0: none, 1: absolute --path, 2: relative --path
				// base states 0..3 (absent/directory/file/unreadable); 4..6: directory holding a
				// previous installation (same content with mode 0600, older content, same content read-only)
				for baseState := 0; baseState <= 6; baseState++ {
					baseClass, prior := baseState, 0
					if baseState >= 4 {
						baseClass, prior = 1, baseState-3
					}
					if !c.Thorough() && idx > 0 && (baseState == 1 || baseState == 3 || baseState == 5) {
						continue
					}
					idx, ai, user, baseClass, customKind, prior := idx, ai, user, baseClass, customKind, prior
					var cpTerm, cwdTerm, homeTerm string
					k.E.Run(fn, func(ps *symx.PathState) []any {
						m := symx.NewFSModel(ps, "trace", srcRoot)
						m.BaseClass = baseClass
						m.ExploreUmask = true
						home := ps.Fresh(symx.SString, "HOME")
						cwd := ps.Fresh(symx.SString, "cwd")
						for _, s := range []symx.Sym{home, cwd} {
							ps.Assume(`(str.prefixof "/" ` + s.T + `)`)
							ps.Assume(`(not (str.suffixof "/" ` + s.T + `))`)
						}
						m.Home, m.Cwd = home, cwd
						cwdTerm, homeTerm = cwd.T, home.T
						ps.User = m
						setPrior := func(base any) {
							if prior == 0 {
								return
							}
							skillDir := symx.JoinPath(base, ai.skill)
							for _, rel := range tree.rel {
								data, _ := os.ReadFile(filepath.Join(srcRoot, "skills/kessoku-di", rel))
								switch prior {
								case 1:
									m.SetPrior(symx.JoinPath(skillDir, rel), data, 0o600)
								case 2:
									m.SetPrior(symx.JoinPath(skillDir, rel), append([]byte("old "), data...), 0o644)
								case 3:
									m.SetPrior(symx.JoinPath(skillDir, rel), data, 0o444)
								}
							}
						}
						if customKind == 0 {
							cpTerm = ""
							sub := ai.project
							root := any(cwd)
							if user {
								sub, root = ai.user, any(home)
							}
							if doc != nil {
								if user {
									sub = doc.user
								} else {
									sub = doc.project
								}
							}
							setPrior(symx.JoinPath(root, sub))
							return []any{symx.IntArg(idx), "", user}
						}
						cp := ps.Fresh(symx.SString, "--path")
						cpTerm = cp.T
						ps.Assume(`(not (str.suffixof "/" ` + cp.T + `))`)
						if customKind == 1 {
							ps.Assume(`(str.prefixof "/" ` + cp.T + `)`)
							setPrior(cp)
						} else {
							setPrior(symx.JoinPath(cwd, cp))
							ps.Assume(`(not (str.prefixof "/" ` + cp.T + `))`)
							ps.Assume(`(not (str.prefixof "." ` + cp.T + `))`)
							ps.Assume(`(> (str.len ` + cp.T + `) 0)`)
						}
						return []any{symx.IntArg(idx), cp, user}
					}, func(ps *symx.PathState, r *symx.PathResult) {
						m := ps.User.(*symx.FSModel)
						paths++
						if !strings.HasPrefix(r.Outcome, "ok") {
							c.Inconclusive(fmt.Sprintf("agent %s: path outcome %s", ai.name, r.Outcome))
							return
						}
						// expected base per the documentation: custom path (made
						// absolute against cwd) > --user > project directory
						custom := customKind != 0
						var expBase any
						switch {
						case customKind == 1:
							expBase = symx.Sym{S: symx.SString, T: cpTerm}
						case customKind == 2:
							expBase = symx.JoinPath(symx.Sym{S: symx.SString, T: cwdTerm}, symx.Sym{S: symx.SString, T: cpTerm})
						case user:
							sub := ai.user
							if doc != nil {
								sub = doc.user
							}
							expBase = symx.JoinPath(symx.Sym{S: symx.SString, T: homeTerm}, sub)
						default:
							sub := ai.project
							if doc != nil {
								sub = doc.project
							}
							expBase = symx.JoinPath(symx.Sym{S: symx.SString, T: cwdTerm}, sub)
						}
						expSkill := symx.JoinPath(expBase, ai.skill)
						expSkillT := symx.TermOf(expSkill)
						ret0, ret1 := symx.TupleAt(r.Ret, 0), symx.TupleAt(r.Ret, 1)
						muts := m.MutatingEvents()
						tr := func() []string {
							var out []string
							for _, ev := range m.Events {
								out = append(out, fmt.Sprintf("%s %v %v", ev.Op, ev.Path, ev.Dst))
							}
							return out
						}
						caseName := fmt.Sprintf("custom=%v(kind %d) user=%v base=%d prior=%d", custom, customKind, user, baseClass, prior)
						if m.UmaskUsed {
							caseName += fmt.Sprintf(" umask=%03o", m.Umask())
						}
						if baseClass >= 2 {
							oblig += 2
							if symx.IsNilIface(ret1) {
								violation(map[string]string{"kind": "unusable base accepted", "agent": ai.name, "case": caseName}, map[string]any{"trace": tr()})
							}
							if len(muts) > 0 {
								violation(map[string]string{"kind": "filesystem modified although base is unusable", "agent": ai.name, "case": caseName}, map[string]any{"trace": tr()})
							}
							return
						}
						oblig++
						if !symx.IsNilIface(ret1) {
							violation(map[string]string{"kind": "installation fails", "agent": ai.name, "case": caseName}, map[string]any{"err": symx.ErrID(ret1), "trace": tr()})
							return
						}
						// returned path = <base>/<skill>
						oblig++
						queries++
						if v, mod := ps.Query("(not (= " + symx.TermOf(ret0) + " " + expSkillT + "))"); v != "unsat" {
							violation(map[string]string{"kind": "wrong installation directory", "agent": ai.name, "case": caseName}, map[string]any{"returned": symx.TermOf(ret0), "expected": expSkillT, "model": mod, "verdict": v})
						}
						// every mutating event stays inside <base>/<skill> (MkdirAll of ancestors excepted)
						for _, ev := range muts {
							mutEvents++
							for _, pv := range []any{ev.Path, ev.Dst} {
								if pv == nil {
									continue
								}
								pt := symx.TermOf(pv)
								oblig++
								queries++
								inside := fmt.Sprintf("(or (= %s %s) (str.prefixof (str.++ %s \"/\") %s))", pt, expSkillT, expSkillT, pt)
								if v, mod := ps.Query("(not " + inside + ")"); v != "unsat" {
									violation(map[string]string{"kind": "write outside the skill directory", "agent": ai.name, "case": caseName, "op": ev.Op}, map[string]any{"path": pt, "expected_prefix": expSkillT, "model": mod, "verdict": v, "trace": tr()})
								}
							}
						}
						// the installed tree = the embedded tree
						for _, rel := range tree.rel {
							oblig++
							key := symx.TermOf(symx.JoinPath(expSkill, rel))
							found := m.Effective(symx.JoinPath(expSkill, rel))
							if found == nil {
								// syntactic mismatch: ask the solver whether some node's path equals the expected one
								for nk, n := range m.Nodes {
									queries++
									if v, _ := ps.Query("(not (= " + symx.TermOf(m.PathVals[nk]) + " " + key + "))"); v == "unsat" {
										found = n
									}
								}
							}
							if found == nil || found.Content != "full:"+tree.hash[rel] || found.Mode != 0o644 {
								violation(map[string]string{"kind": "installed tree differs", "agent": ai.name, "case": caseName}, map[string]any{"file": rel, "node": found, "trace": tr()})
							}
						}
						oblig++
						if len(m.Nodes) != len(tree.rel) {
							violation(map[string]string{"kind": "extra files installed", "agent": ai.name, "case": caseName}, map[string]any{"nodes": len(m.Nodes), "trace": tr()})
						}
						if paths%40 == 1 {
							c.Sample(map[string]any{"agent": ai.name, "case": caseName, "expected_dir_term": expSkillT, "events": tr()})
						}
					})
				}
			}
		}
	}
	// --- the same cases on concrete inputs through the real CLI ------------------
	var ncases []c16NativeCase
	for _, ai := range infos {
		doc := readme[ai.name]
		for _, user := range []bool{false, true} {
			sub := ai.project
			if user {
				sub = ai.user
			}
			if doc != nil {
				if user {
					sub = doc.user
				} else {
					sub = doc.project
				}
			}
			for customKind := 0; customKind <= 2; customKind++ {
				for _, bs := range []int{0, 1, 2, 4, 5, 6} {
					ncases = append(ncases, c16NativeCase{agent: ai.name, skill: ai.skill, sub: sub, user: user, customKind: customKind, baseState: bs})
					if bs == 0 || bs == 5 {
						ncases = append(ncases, c16NativeCase{agent: ai.name, skill: ai.skill, sub: sub, user: user, customKind: customKind, baseState: bs, xdg: true})
						for _, um := range []string{"077", "027"} {
							if um == "027" && !c.Thorough() {
								continue
							}
							ncases = append(ncases, c16NativeCase{agent: ai.name, skill: ai.skill, sub: sub, user: user, customKind: customKind, baseState: bs, umask: um})
						}
					}
				}
			}
			// a --path whose first element is a literal "~" (quoted, or written --path=~/x, so no
			// shell expanded it): only on a fresh destination
			ncases = append(ncases, c16NativeCase{agent: ai.name, skill: ai.skill, sub: sub, user: user, customKind: 3, baseState: 0})
		}
	}
	nrun, nerr := runC16Native(c, k.S.Repo, k.S.Dir, srcRoot, tree, ncases, violation)
	if nerr != nil {
		c.Inconclusive("native differential not run: " + nerr.Error())
	}
	c.Coverage["native_cli_cases"] = nrun
	c.Coverage["traces_validated_against_impl"] = nrun
	engineCoverage(c, k.E, "")
	c.Coverage["bounds"] = map[string]any{"agents": len(infos), "paths": "HOME, cwd, --path and environment variables are symbolic strings (clean absolute / relative paths)", "base_states": "absent, directory, file, unreadable, previous installation x3", "umask": "022/027/077", "outside": "symlinks, ~ expansion by the shell, concurrent installers"}
	c.Coverage["explanation"] = fmt.Sprintf("Symbolic execution of the real Install/ResolvePath/ValidatePath and the agents' methods for all %d registered agents with --path, $HOME and the working directory as symbolic strings (solver strings), --user and the state of the base (absent/directory/file/unreadable) enumerated: %d paths, %d mutating filesystem events; every event path is proved (str.prefixof query, unsat required) to lie under <expected base>/<skill>, the expected base computed from the README table parsed at check time; installed tree compared with the on-disk skill tree; registry, kong sub-commands (struct tags + type arguments) and README agent list compared as sets.", len(infos), paths, mutEvents)
	c.Coverage["obligations"] = oblig
	c.Coverage["evaluations"] = paths
	c.Coverage["distinct_nontrivial"] = len(infos) * 2
	c.Coverage["rule"] = "evaluation = explored path (agent x --user x base class x custom-path-empty-or-not); distinct_nontrivial = agent x {default,--user} combinations with a successful installation"
	c.Coverage["agents"] = regL
	c.Coverage["string_queries"] = queries
	c.Assume("filepath.Abs of the custom path is an arbitrary clean absolute path (one symbol per argument); Join has its exact semantics on clean operands; $HOME and cwd are clean absolute paths")
	c.Assume("native differential: every (agent, --user, --path kind, base state except unreadable) case is also run through the CLI built from the working tree with one concrete HOME / cwd / --path (a directory name containing a space included) and judged by the same documented expectation")
	c.Assume("the process umask is an environment parameter: symbolic runs fork over {022, 027, 077} wherever a file is created with an explicit permission argument; the native cases for fresh and older-content destinations are repeated under umask 077 (thorough: 027 too)")
	c.Assume("environment variables other than HOME are arbitrary symbolic strings in the model (one per name); natively the fresh / older-content cases are repeated with XDG_{CONFIG,DATA,STATE,CACHE}_HOME pointing elsewhere")
	c.Assume("relative --path resolution against cwd is that of filepath.Abs (outside the stub: trusted); a --path starting with a literal ~/ is covered by the native cases only, where both readings of \"the custom path\" are accepted: <cwd>/~/x, or x below $HOME - never anything else (e.g. the account's passwd home)")
	return nil
}
