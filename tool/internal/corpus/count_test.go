package corpus

import "testing"

func TestCounts(t *testing.T) {
	for n := 1; n <= 5; n++ {
		t.Logf("n=%d dags=%d", n, len(dags(n)))
	}
	t.Logf("F1(4,1,false,false)=%d F1(4,2,false,false)=%d F1(3,3,true,true)=%d F2q=%d F2t=%d", len(F1(4, 1, false, false)), len(F1(4, 2, false, false)), len(F1(3, 3, true, true)), len(F2(false)), len(F2(true)))
}
