package corpus

// Reference semantics of a declaration (DESIGN Appendix B): which provider
// supplies which type, the term the injector must return, the providers that
// must be invoked (each once) with which argument terms, the signature, and the
// dependency relation. It knows nothing about pools, channels or ordering.

import (
	"fmt"
	"sort"
	"strings"
)

type supplier struct {
	prov   int // index into Decl.Provs; -1 for a struct field
	result int
	// struct field
	structProv int // index of the KStruct provider
	field      int
}

type Ref struct {
	Result   string            // SMT term of sort V
	Calls    map[string]string // provider symbol -> application term "(out_NewT1_0 a b)" arguments only: "a b"
	Needed   []string          // provider symbols invoked, sorted
	Unneeded []string
	Params   []string // unsupplied types, in discovery order
	NeedsCtx bool     // context.Context parameter present
	CtxFirst bool     // some needed provider is Async
	RetErr   bool     // some needed provider is fallible
	Fallible map[string]bool
	Async    map[string]bool
	NoInputs map[string]bool
	// DependsOn[q][p]: evaluating q requires p's evaluation
	DependsOn map[string]map[string]bool
	Valid     bool
	Why       string
}

// Sym returns the SMT symbol stem of a provider.
func (pr Prov) Sym() string {
	switch pr.Kind {
	case KFunc:
		return pr.Name
	case KLiteral:
		return "lit_" + Sanitize(LiteralSig(pr))
	case KValue:
		return "value"
	}
	return "struct"
}

// LiteralSig renders the Go signature of a literal provider as go/types prints it.
func LiteralSig(pr Prov) string {
	var ps []string
	for i, t := range pr.Params {
		ps = append(ps, fmt.Sprintf("a%d %s", i, t))
	}
	res := append([]string{}, pr.Results...)
	if pr.Err {
		res = append(res, "error")
	}
	r := strings.Join(res, ", ")
	if len(res) > 1 {
		r = "(" + r + ")"
	}
	return "func(" + strings.Join(ps, ", ") + ") " + r
}

func Sanitize(s string) string {
	var sb strings.Builder
	for _, c := range s {
		switch {
		case c >= 'a' && c <= 'z', c >= 'A' && c <= 'Z', c >= '0' && c <= '9':
			sb.WriteRune(c)
		case c == '*':
			sb.WriteString("p")
		case c == '.':
			sb.WriteString("_")
		default:
			sb.WriteString("_")
		}
	}
	return sb.String()
}

// canonType replaces the package qualifiers of a corpus type expression (import names or
// aliases of file 0) by import paths, the way the extractor names parameter terms.
func (p *Program) canonType(t string) string {
	if !strings.Contains(t, ".") || t == "context.Context" {
		return t
	}
	names := map[string]string{}
	for _, im := range p.ExtraImports {
		f := strings.Fields(im)
		path := strings.Trim(f[len(f)-1], "\"")
		name := path[strings.LastIndex(path, "/")+1:]
		if len(f) == 2 {
			name = f[0]
		}
		names[name] = path
	}
	var sb strings.Builder
	i := 0
	for i < len(t) {
		j := i
		for j < len(t) && (t[j] == '_' || t[j] >= 'a' && t[j] <= 'z' || t[j] >= 'A' && t[j] <= 'Z' || t[j] >= '0' && t[j] <= '9') {
			j++
		}
		if j > i && j < len(t) && t[j] == '.' {
			if path, ok := names[t[i:j]]; ok {
				sb.WriteString(path)
				i = j
				continue
			}
		}
		if j == i {
			j = i + 1
		}
		sb.WriteString(t[i:j])
		i = j
	}
	return sb.String()
}

func InTerm(typ string) string {
	if typ == "context.Context" {
		return "in_ctx"
	}
	return "in_" + Sanitize(typ)
}

func app(f string, args []string) string {
	if len(args) == 0 {
		return f
	}
	return "(" + f + " " + strings.Join(args, " ") + ")"
}

// Evaluate computes the reference for d within program p.
func (p *Program) Evaluate(d Decl) *Ref {
	r := &Ref{Calls: map[string]string{}, Fallible: map[string]bool{}, Async: map[string]bool{}, NoInputs: map[string]bool{}, DependsOn: map[string]map[string]bool{}, Valid: true}
	sup := map[string]supplier{}
	// pass 1: functions / values (+ Bind)
	for i, pr := range d.Provs {
		if pr.Kind == KStruct {
			continue
		}
		for ri, t := range pr.Results {
			if _, dup := sup[t]; dup {
				r.Valid, r.Why = false, "duplicate supplier of "+t
				return r
			}
			sup[t] = supplier{prov: i, result: ri}
		}
		if pr.Bind != "" {
			// the bound result: the interface's recorded implementation if the provider
			// returns it, else its first result (a second implementing type, declared by hand)
			impl := "*" + p.Ifaces[pr.Bind]
			bound := -1
			for ri, t := range pr.Results {
				if t == impl {
					bound = ri
					break
				}
			}
			if bound < 0 && len(pr.Results) > 0 {
				bound = 0
			}
			if bound >= 0 {
				if _, dup := sup[pr.Bind]; dup {
					r.Valid, r.Why = false, "duplicate supplier of "+pr.Bind
					return r
				}
				sup[pr.Bind] = supplier{prov: i, result: bound}
			}
		}
	}
	// pass 2: struct fields
	for i, pr := range d.Provs {
		if pr.Kind != KStruct {
			continue
		}
		if _, ok := sup[pr.Struct]; !ok {
			r.Valid, r.Why = false, "no source for struct "+pr.Struct
			return r
		}
		for fi, ft := range pr.FTypes {
			if _, dup := sup[ft]; dup {
				r.Valid, r.Why = false, "duplicate supplier of "+ft
				return r
			}
			sup[ft] = supplier{prov: -1, structProv: i, field: fi}
		}
	}
	memo := map[int][]string{} // prov -> result terms
	visiting := map[int]bool{}
	var stack []string
	seenParam := map[string]bool{}
	var evalT func(t string) string
	var evalP func(i int) []string
	markDeps := func(p string) {
		for _, q := range stack {
			if r.DependsOn[q] == nil {
				r.DependsOn[q] = map[string]bool{}
			}
			r.DependsOn[q][p] = true
		}
	}
	evalP = func(i int) []string {
		pr := d.Provs[i]
		sym := pr.Sym()
		if res, ok := memo[i]; ok {
			markDeps(sym)
			// dependencies of an already evaluated provider propagate too
			for dep := range r.DependsOn[sym] {
				markDeps(dep)
			}
			return res
		}
		if visiting[i] {
			r.Valid, r.Why = false, "cycle through "+sym
			return []string{"CYCLE"}
		}
		visiting[i] = true
		markDeps(sym)
		stack = append(stack, sym)
		var args []string
		for _, t := range pr.Params {
			args = append(args, evalT(t))
		}
		stack = stack[:len(stack)-1]
		for dep := range r.DependsOn[sym] {
			markDeps(dep)
		}
		visiting[i] = false
		var res []string
		if pr.Kind == KValue {
			res = []string{pr.ValueTerm()}
		} else {
			for ri := range pr.Results {
				res = append(res, app(fmt.Sprintf("out_%s_%d", sym, ri), args))
			}
			r.Calls[sym] = strings.Join(args, " ")
			r.Needed = append(r.Needed, sym)
			r.Fallible[sym] = pr.Err
			r.Async[sym] = pr.Async
			r.NoInputs[sym] = len(pr.Params) == 0
			if pr.Err {
				r.RetErr = true
			}
		}
		if pr.Async {
			r.CtxFirst = true
		}
		memo[i] = res
		return res
	}
	evalT = func(t string) string {
		s, ok := sup[t]
		if !ok {
			if !seenParam[t] {
				seenParam[t] = true
				if t == "context.Context" {
					r.NeedsCtx = true
				} else {
					r.Params = append(r.Params, t)
				}
			}
			return InTerm(p.canonType(t))
		}
		if s.prov >= 0 {
			return evalP(s.prov)[s.result]
		}
		sp := d.Provs[s.structProv]
		base := evalT(sp.Struct)
		return "(fld_" + Sanitize(strings.TrimPrefix(sp.Struct, "*")) + "_" + sp.Fields[s.field] + " " + base + ")"
	}
	r.Result = evalT(d.Request)
	if r.CtxFirst {
		r.NeedsCtx = true
	}
	sort.Strings(r.Needed)
	needed := map[string]bool{}
	for _, n := range r.Needed {
		needed[n] = true
	}
	for _, pr := range d.Provs {
		if pr.Kind == KStruct || pr.Kind == KValue {
			continue
		}
		if !needed[pr.Sym()] {
			r.Unneeded = append(r.Unneeded, pr.Sym())
		}
	}
	return r
}

// ValueTerm is the V term of a Value provider's constant.
func (pr Prov) ValueTerm() string {
	return pr.VTerm
}
