package corpus

import "testing"

func TestCountFG(t *testing.T) {
	t.Logf("FG(3,2,0)=%d FG(2,2,0)=%d FG(2,3,0)=%d FG(3,2,1)=%d FG(3,3,0)=%d FW=%d", len(FG(3, 2, 0, 0, 1)), len(FG(2, 2, 0, 0, 1)), len(FG(2, 3, 0, 0, 1)), len(FG(3, 2, 1, 0, 1)), len(FG(3, 3, 0, 0, 1)), len(FW()))
}
