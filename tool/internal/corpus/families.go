package corpus

import (
	"fmt"
	"math/rand"
	"strings"
)

// dags enumerates all DAGs on n nodes labelled in topological order (node 0
// is the root; an edge i->j with i<j means "i requires j") in which every
// node is reachable from the root. deps[i] lists the required nodes in
// increasing order.
func dags(n int) [][][]int {
	type pair struct{ i, j int }
	var pairs []pair
	for i := 0; i < n; i++ {
		for j := i + 1; j < n; j++ {
			pairs = append(pairs, pair{i, j})
		}
	}
	var out [][][]int
	for mask := 0; mask < 1<<len(pairs); mask++ {
		deps := make([][]int, n)
		for k, p := range pairs {
			if mask&(1<<k) != 0 {
				deps[p.i] = append(deps[p.i], p.j)
			}
		}
		reach := make([]bool, n)
		var dfs func(int)
		dfs = func(i int) {
			if reach[i] {
				return
			}
			reach[i] = true
			for _, j := range deps[i] {
				dfs(j)
			}
		}
		dfs(0)
		ok := true
		for _, r := range reach {
			ok = ok && r
		}
		if ok {
			out = append(out, deps)
		}
	}
	return out
}

func typeNames(n int) []string {
	out := make([]string, n)
	for i := range out {
		out[i] = fmt.Sprintf("T%d", i)
	}
	return out
}

// coreDecl builds the declaration for a DAG with the given markings.
// argAt: node that additionally requires the unsupplied type *A0 (-1: none).
// rev: bit i set => parameters of node i in reverse order.
func coreDecl(name string, deps [][]int, async, errs uint, argAt int, rev uint) Decl {
	return coreDeclP("T", name, deps, async, errs, argAt, rev)
}

// coreDeclP is coreDecl over the types <prefix>0.. and providers New<prefix>i.
func coreDeclP(prefix, name string, deps [][]int, async, errs uint, argAt int, rev uint) Decl {
	n := len(deps)
	d := Decl{Name: name, Request: "*" + prefix + "0"}
	for i := n - 1; i >= 0; i-- {
		pr := Prov{Name: fmt.Sprintf("New%s%d", prefix, i), Results: []string{fmt.Sprintf("*%s%d", prefix, i)}, Kind: KFunc}
		for _, j := range deps[i] {
			pr.Params = append(pr.Params, fmt.Sprintf("*%s%d", prefix, j))
		}
		if argAt == i {
			pr.Params = append(pr.Params, "*A0")
		}
		if rev&(1<<uint(i)) != 0 {
			for a, b := 0, len(pr.Params)-1; a < b; a, b = a+1, b-1 {
				pr.Params[a], pr.Params[b] = pr.Params[b], pr.Params[a]
			}
		}
		pr.Async = async&(1<<uint(i)) != 0
		pr.Err = errs&(1<<uint(i)) != 0
		d.Provs = append(d.Provs, pr)
	}
	return d
}

func bits(x uint) int {
	c := 0
	for ; x != 0; x &= x - 1 {
		c++
	}
	return c
}

// F1 is the exhaustive core family for DAGs on exactly n nodes.
// maxErr bounds the number of fallible providers; withArgs adds the variants
// with one unsupplied argument type; withRev adds reversed parameter orders
// for nodes with at least two parameters.
func F1(n, maxErr int, withArgs, withRev bool) []*Program {
	var out []*Program
	for di, deps := range dags(n) {
		var multi []int
		for i, d := range deps {
			if len(d) >= 2 {
				multi = append(multi, i)
			}
		}
		revs := []uint{0}
		if withRev && len(multi) > 0 {
			for m := 1; m < 1<<len(multi); m++ {
				var r uint
				for k, i := range multi {
					if m&(1<<k) != 0 {
						r |= 1 << uint(i)
					}
				}
				revs = append(revs, r)
			}
		}
		args := []int{-1}
		if withArgs {
			for i := 0; i < n; i++ {
				args = append(args, i)
			}
		}
		for async := uint(0); async < 1<<uint(n); async++ {
			for errs := uint(0); errs < 1<<uint(n); errs++ {
				if bits(errs) > maxErr {
					continue
				}
				for _, argAt := range args {
					for _, rev := range revs {
						p := &Program{Family: "F1", Types: typeNames(n)}
						if argAt >= 0 {
							p.Types = append(p.Types, "A0")
						}
						p.Desc = fmt.Sprintf("n=%d dag=%d async=%0*b err=%0*b arg@%d rev=%b", n, di, n, async, n, errs, argAt, rev)
						p.Decls = []Decl{coreDecl("InitP", deps, async, errs, argAt, rev)}
						out = append(out, p)
					}
				}
			}
		}
	}
	return out
}

// asyncVariants returns copies of the program with every Async subset of the
// function/value providers of declaration 0 (struct expansions cannot be Async-significant).
func asyncVariants(base *Program, maxVariants int) []*Program {
	d := base.Decls[0]
	var idx []int
	for i, pr := range d.Provs {
		if pr.Kind != KStruct {
			idx = append(idx, i)
		}
	}
	var out []*Program
	total := 1 << len(idx)
	for m := 0; m < total; m++ {
		if maxVariants > 0 && len(out) >= maxVariants {
			break
		}
		cp := *base
		cp.Decls = append([]Decl{}, base.Decls...)
		nd := d
		nd.Provs = append([]Prov{}, d.Provs...)
		for k, i := range idx {
			nd.Provs[i].Async = m&(1<<k) != 0
		}
		cp.Decls[0] = nd
		cp.Desc = fmt.Sprintf("%s async=%0*b", base.Desc, len(idx), m)
		out = append(out, &cp)
	}
	return out
}

func fn(name string, params []string, results []string, err bool) Prov {
	return Prov{Name: name, Params: params, Results: results, Err: err, Kind: KFunc}
}

// F2 is the feature family: one base declaration per generator feature, each
// expanded over all Async subsets (and a fallible variant where it matters).
func F2(thorough bool) []*Program {
	var bases []*Program
	var fixed []*Program // programs taken as they are (no Async variants)
	add := func(p *Program) { p.Family = "F2"; bases = append(bases, p) }

	// Bind: *T1 bound to I0; root needs I0, a sibling needs *T1 as well.
	for _, e := range []bool{false, true} {
		add(&Program{Desc: fmt.Sprintf("bind err=%v", e), Types: typeNames(3), Ifaces: map[string]string{"I0": "T1"}, Decls: []Decl{{
			Name: "InitP", Request: "*T0", Provs: []Prov{
				func() Prov { p := fn("NewT1", nil, []string{"*T1"}, e); p.Bind = "I0"; return p }(),
				fn("NewT2", []string{"*T1"}, []string{"*T2"}, false),
				fn("NewT0", []string{"I0", "*T2"}, []string{"*T0"}, false),
			}}}})
	}
	// One declaration binds a constructor to an interface, a later declaration of the same
	// file uses the same constructor unbound: the interface is then an injector parameter
	// (first program) or supplied by another bound constructor (second program).
	add(&Program{Desc: "bind in one declaration, same constructor unbound in the next (interface becomes a parameter)", Types: typeNames(3), Ifaces: map[string]string{"I0": "T1"}, Decls: []Decl{
		{Name: "InitP", Request: "*T0", Provs: []Prov{
			func() Prov { p := fn("NewT1", nil, []string{"*T1"}, false); p.Bind = "I0"; return p }(),
			fn("NewT0", []string{"I0"}, []string{"*T0"}, false)}},
		{Name: "InitQ", Request: "*T2", Provs: []Prov{
			fn("NewT1", nil, []string{"*T1"}, false),
			fn("NewT2", []string{"*T1", "I0"}, []string{"*T2"}, false)}}}})
	add(&Program{Desc: "bind in one declaration, same constructor unbound in the next (another supplier of the interface)", Types: typeNames(4), Ifaces: map[string]string{"I0": "T1"}, Consts: []string{"func (*T3) isI0() {}"}, Decls: []Decl{
		{Name: "InitP", Request: "*T0", Provs: []Prov{
			func() Prov { p := fn("NewT1", nil, []string{"*T1"}, false); p.Bind = "I0"; return p }(),
			fn("NewT0", []string{"I0"}, []string{"*T0"}, false)}},
		{Name: "InitQ", Request: "*T2", Provs: []Prov{
			fn("NewT1", nil, []string{"*T1"}, false),
			func() Prov { p := fn("NewT3", nil, []string{"*T3"}, false); p.Bind = "I0"; return p }(),
			fn("NewT2", []string{"*T1", "I0"}, []string{"*T2"}, false)}}}})
	// Bind: concrete type and interface both needed, in every order in which the walk from
	// the requested type can meet them
	for vi, v := range [][2][]string{
		{{"I0"}, {"*T1", "*T2"}},        // concrete at depth 1, interface below
		{{"*T1"}, {"I0", "*T2"}},        // interface at depth 1, concrete below
		{{"*T1", "I0"}, {"*T2", "*T1"}}, // both below and concrete again at depth 1
	} {
		for _, e := range []bool{false, true} {
			add(&Program{Desc: fmt.Sprintf("bind both concrete and interface needed order=%d err=%v", vi, e), Types: typeNames(3), Ifaces: map[string]string{"I0": "T1"}, Decls: []Decl{{
				Name: "InitP", Request: "*T0", Provs: []Prov{
					func() Prov { p := fn("NewT1", nil, []string{"*T1"}, e); p.Bind = "I0"; return p }(),
					fn("NewT2", v[0], []string{"*T2"}, false),
					fn("NewT0", v[1], []string{"*T0"}, false),
				}}}})
		}
	}
	add(&Program{Desc: "bind both needed by the root, concrete first", Types: typeNames(2), Ifaces: map[string]string{"I0": "T1"}, Decls: []Decl{{
		Name: "InitP", Request: "*T0", Provs: []Prov{
			func() Prov { p := fn("NewT1", nil, []string{"*T1"}, false); p.Bind = "I0"; return p }(),
			fn("NewT0", []string{"*T1", "I0"}, []string{"*T0"}, false),
		}}}})
	// two distinct types with the same name from packages with the same name
	add(&Program{Desc: "same-named types of same-named packages, both supplied", Types: typeNames(1),
		ExtraImports: []string{`htemplate "html/template"`, `ttemplate "text/template"`}, Decls: []Decl{{
			Name: "InitP", Request: "*T0", Provs: []Prov{
				fn("NewTT", nil, []string{"*ttemplate.Template"}, false),
				fn("NewHT", nil, []string{"*htemplate.Template"}, false),
				fn("NewT0", []string{"*ttemplate.Template", "*htemplate.Template"}, []string{"*T0"}, false),
			}}}})
	add(&Program{Desc: "same-named types of same-named packages, one supplied, one a parameter", Types: typeNames(1),
		ExtraImports: []string{`htemplate "html/template"`, `ttemplate "text/template"`}, Decls: []Decl{{
			Name: "InitP", Request: "*T0", Provs: []Prov{
				fn("NewTT", nil, []string{"*ttemplate.Template"}, false),
				fn("NewT0", []string{"*ttemplate.Template", "*htemplate.Template"}, []string{"*T0"}, false),
			}}}})
	// result types without a nil value (struct value, named string) in injectors with goroutines
	for _, req := range []string{"T0", "V0"} {
		for _, e := range []bool{false, true} {
			add(&Program{Desc: fmt.Sprintf("value-typed result %s err=%v", req, e), Types: typeNames(3), Consts: []string{"type V0 string"}, Decls: []Decl{{
				Name: "InitP", Request: req, Provs: []Prov{
					fn("NewT1", nil, []string{"*T1"}, e),
					fn("NewT2", nil, []string{"*T2"}, false),
					fn("NewR", []string{"*T1", "*T2"}, []string{req}, false),
				}}}})
		}
	}
	// context.Context supplied by a provider of the graph (and by a struct field), with and
	// without Async providers: the injector still takes its own context when something is Async
	add(&Program{Desc: "context supplied by a provider", SignatureOnly: true, Types: typeNames(4), Decls: []Decl{{
		Name: "InitP", Request: "*T0", Provs: []Prov{
			fn("NewT1", nil, []string{"*T1"}, false),
			fn("NewCtx", []string{"*T1"}, []string{"context.Context"}, false),
			fn("NewT2", []string{"context.Context", "*T1"}, []string{"*T2"}, true),
			fn("NewT3", nil, []string{"*T3"}, false),
			fn("NewT0", []string{"*T2", "*T3"}, []string{"*T0"}, false),
		}}}})
	// two Set variables declared in one var spec; the declaration uses the second one, whose
	// providers supply the same types as the first one's
	add(&Program{Desc: "set variable from a multi-name var spec", Types: typeNames(3), Decls: []Decl{{
		Name: "InitP", Request: "*T0", Provs: []Prov{
			fn("NewT1B", nil, []string{"*T1"}, false),
			fn("NewT2B", []string{"*T1"}, []string{"*T2"}, false),
			fn("NewT0", []string{"*T1", "*T2"}, []string{"*T0"}, false),
		}, Sets: [][]int{{0, 1}}, SetVars: []string{"mySet"},
		JointWith: []Prov{fn("NewT1A", nil, []string{"*T1"}, false), fn("NewT2A", []string{"*T1"}, []string{"*T2"}, true)}}}})
	// a constant consumed in two goroutines
	add(&Program{Desc: "value consumed by two async providers", Types: typeNames(3), Consts: []string{"type V0 string", "const cV0 V0 = \"x\""}, Decls: []Decl{{
		Name: "InitP", Request: "*T0", Provs: []Prov{
			{Kind: KValue, ValueOf: "cV0", Results: []string{"V0"}, Name: "value:cV0", VTerm: "(litS \"x\")"},
			func() Prov { p := fn("NewT1", []string{"V0"}, []string{"*T1"}, false); p.Async = true; return p }(),
			func() Prov { p := fn("NewT2", []string{"V0"}, []string{"*T2"}, false); p.Async = true; return p }(),
			fn("NewT0", []string{"*T1", "*T2"}, []string{"*T0"}, false),
		}}}})
	// Bind written around Async
	add(&Program{Desc: "bind-outside-async", Types: typeNames(3), Ifaces: map[string]string{"I0": "T1"}, Decls: []Decl{{
		Name: "InitP", Request: "*T0", Provs: []Prov{
			func() Prov {
				p := fn("NewT1", nil, []string{"*T1"}, false)
				p.Bind = "I0"
				p.BindOutside = true
				return p
			}(),
			fn("NewT2", nil, []string{"*T2"}, false),
			fn("NewT0", []string{"I0", "*T2"}, []string{"*T0"}, false),
		}}}})
	// error result spelled through an alias of error
	add(&Program{Desc: "error-alias", Types: typeNames(3), Decls: []Decl{{
		Name: "InitP", Request: "*T0", Provs: []Prov{
			func() Prov { p := fn("NewT2", nil, []string{"*T2"}, true); p.ErrAlias = true; return p }(),
			fn("NewT1", []string{"*T2"}, []string{"*T1"}, false),
			fn("NewT0", []string{"*T1", "*T2"}, []string{"*T0"}, false),
		}}}})
	// a consumer taking two results of one provider next to a deeper dependency
	add(&Program{Desc: "multi-result plus chain", Types: typeNames(6), Decls: []Decl{{
		Name: "InitP", Request: "*T0", Provs: []Prov{
			fn("NewT1T2", nil, []string{"*T1", "*T2"}, false),
			fn("NewT5", nil, []string{"*T5"}, false),
			fn("NewT4", []string{"*T5"}, []string{"*T4"}, false),
			fn("NewT3", nil, []string{"*T3"}, false),
			fn("NewT0", []string{"*T1", "*T2", "*T4", "*T3"}, []string{"*T0"}, false),
		}}}})
	// Struct expansion: S0{F0 *T1; F1 *T2}
	for _, e := range []bool{false, true} {
		add(&Program{Desc: fmt.Sprintf("struct err=%v", e), Types: typeNames(4), Structs: map[string][]string{"S0": {"F0 *T1", "F1 *T2", "hidden int"}}, Decls: []Decl{{
			Name: "InitP", Request: "*T0", Provs: []Prov{
				fn("NewS0", []string{"*T3"}, []string{"*S0"}, e),
				fn("NewT3", nil, []string{"*T3"}, false),
				{Kind: KStruct, Struct: "*S0", Fields: []string{"F0", "F1"}, FTypes: []string{"*T1", "*T2"}},
				fn("NewT0", []string{"*T1", "*T2"}, []string{"*T0"}, false),
			}}}})
	}
	// both results of one provider fan out to consumers in other goroutines
	for _, e := range []bool{false, true} {
		add(&Program{Desc: fmt.Sprintf("multi-result fan-out err=%v", e), Types: typeNames(6), Decls: []Decl{{
			Name: "InitP", Request: "*T0", Provs: []Prov{
				fn("NewT1T2", nil, []string{"*T1", "*T2"}, e),
				fn("NewT3", []string{"*T1"}, []string{"*T3"}, false),
				fn("NewT4", []string{"*T2"}, []string{"*T4"}, false),
				fn("NewT5", []string{"*T1", "*T2"}, []string{"*T5"}, e),
				fn("NewT0", []string{"*T3", "*T4", "*T5"}, []string{"*T0"}, false),
			}}}})
	}
	// Struct expansion whose fields are consumed in other goroutines; the struct's provider may fail
	for _, e := range []bool{false, true} {
		add(&Program{Desc: fmt.Sprintf("struct-across-goroutines err=%v", e), Types: typeNames(5), Structs: map[string][]string{"S0": {"F0 *T1", "F1 *T2"}}, Decls: []Decl{{
			Name: "InitP", Request: "*T0", Provs: []Prov{
				fn("NewS0", nil, []string{"*S0"}, e),
				{Kind: KStruct, Struct: "*S0", Fields: []string{"F0", "F1"}, FTypes: []string{"*T1", "*T2"}},
				fn("NewT3", []string{"*T1"}, []string{"*T3"}, false),
				fn("NewT4", []string{"*T2"}, []string{"*T4"}, e),
				fn("NewT0", []string{"*T3", "*T4"}, []string{"*T0"}, false),
			}}}})
	}
	// Async written around a Struct expansion (fields consumed by providers of their own)
	for _, e := range []bool{false, true} {
		add(&Program{Desc: fmt.Sprintf("async-struct err=%v", e), Types: typeNames(6), Structs: map[string][]string{"S0": {"F0 *T1", "F1 *T2"}}, Decls: []Decl{{
			Name: "InitP", Request: "*T0", Provs: []Prov{
				fn("NewT3", nil, []string{"*T3"}, false),
				fn("NewS0", []string{"*T3"}, []string{"*S0"}, e),
				{Kind: KStruct, Struct: "*S0", Fields: []string{"F0", "F1"}, FTypes: []string{"*T1", "*T2"}, Async: true},
				fn("NewT4", []string{"*T1"}, []string{"*T4"}, false),
				fn("NewT5", []string{"*T2"}, []string{"*T5"}, false),
				fn("NewT0", []string{"*T4", "*T5"}, []string{"*T0"}, false),
			}}}})
	}
	// Async around the expansion of a struct provided by value
	for _, e := range []bool{false, true} {
		add(&Program{Desc: fmt.Sprintf("async-struct by value err=%v", e), Types: typeNames(5), Structs: map[string][]string{"S0": {"F0 *T1", "F1 *T2"}}, Decls: []Decl{{
			Name: "InitP", Request: "*T0", Provs: []Prov{
				fn("NewS0", nil, []string{"S0"}, e),
				{Kind: KStruct, Struct: "S0", Fields: []string{"F0", "F1"}, FTypes: []string{"*T1", "*T2"}, Async: true},
				fn("NewT3", []string{"*T1"}, []string{"*T3"}, false),
				fn("NewT4", []string{"*T2"}, []string{"*T4"}, false),
				fn("NewT0", []string{"*T3", "*T4"}, []string{"*T0"}, false),
			}}}})
	}
	// the same behind an independent Async chain that occupies the calling goroutine, fields
	// consumed by the root directly or through providers
	for _, e := range []bool{false, true} {
		for _, direct := range []bool{false, true} {
			rootParams := []string{"*T7", "*T4", "*T5"}
			provs := []Prov{
				func() Prov { p := fn("NewT6", nil, []string{"*T6"}, false); p.Async = true; return p }(),
				func() Prov { p := fn("NewT7", []string{"*T6"}, []string{"*T7"}, false); p.Async = true; return p }(),
				func() Prov { p := fn("NewS0", nil, []string{"*S0"}, e); p.Async = true; return p }(),
				{Kind: KStruct, Struct: "*S0", Fields: []string{"F0", "F1"}, FTypes: []string{"*T1", "*T2"}, Async: true},
			}
			if direct {
				rootParams = []string{"*T7", "*T1", "*T2"}
			} else {
				provs = append(provs, fn("NewT4", []string{"*T1"}, []string{"*T4"}, false), fn("NewT5", []string{"*T2"}, []string{"*T5"}, false))
			}
			provs = append(provs, fn("NewT0", rootParams, []string{"*T0"}, false))
			fixed = append(fixed, &Program{Family: "F2", Desc: fmt.Sprintf("async-struct behind an async chain err=%v direct=%v", e, direct), Types: typeNames(8), Structs: map[string][]string{"S0": {"F0 *T1", "F1 *T2"}}, Decls: []Decl{{
				Name: "InitP", Request: "*T0", Provs: provs}}})
		}
	}
	// a consumer of both results of one provider that also needs a value built, two levels
	// deep, from one of those results and an independent root (every Async subset)
	fixed = append(fixed, asyncVariants(&Program{Family: "F2", Desc: "multi-result consumer behind a two-level dependency on one of the results", Types: typeNames(7), Decls: []Decl{{
		Name: "InitP", Request: "*T0", Provs: []Prov{
			fn("NewT1T2", nil, []string{"*T1", "*T2"}, false),
			fn("NewT3", []string{"*T1"}, []string{"*T3"}, false),
			fn("NewT4", nil, []string{"*T4"}, false),
			fn("NewT5", []string{"*T3", "*T4"}, []string{"*T5"}, false),
			fn("NewT6", []string{"*T1", "*T2", "*T5"}, []string{"*T6"}, false),
			fn("NewT0", []string{"*T6"}, []string{"*T0"}, false),
		}}}}, 0)...)
	// Struct by value with one field consumed by an intermediate provider
	add(&Program{Desc: "struct-value", Types: typeNames(3), Structs: map[string][]string{"S0": {"F0 *T1"}}, Decls: []Decl{{
		Name: "InitP", Request: "*T0", Provs: []Prov{
			fn("NewS0", nil, []string{"S0"}, false),
			{Kind: KStruct, Struct: "S0", Fields: []string{"F0"}, FTypes: []string{"*T1"}},
			fn("NewT2", []string{"*T1"}, []string{"*T2"}, true),
			fn("NewT0", []string{"*T2", "*T1"}, []string{"*T0"}, false),
		}}}})
	// Value
	add(&Program{Desc: "value", Types: typeNames(2), Consts: []string{"type V0 string", "const cV0 V0 = \"x\""}, Decls: []Decl{{
		Name: "InitP", Request: "*T0", Provs: []Prov{
			{Kind: KValue, ValueOf: "cV0", Results: []string{"V0"}, Name: "value:cV0", VTerm: "(litS \"x\")"},
			fn("NewT1", []string{"V0"}, []string{"*T1"}, true),
			fn("NewT0", []string{"*T1", "V0"}, []string{"*T0"}, false),
		}}}})
	// Value whose source is declared in a generated sibling file and is named like the local
	// variable the injector would choose (v0 for V0); goroutines force the var block
	add(&Program{Desc: "value-from-generated-file", Types: typeNames(3), Consts: []string{"type V0 string"}, GenConsts: []string{"const v0 V0 = \"x\"", "var t2 = 0"}, Decls: []Decl{{
		Name: "InitP", Request: "*T0", Provs: []Prov{
			{Kind: KValue, ValueOf: "v0", Results: []string{"V0"}, Name: "value:v0", VTerm: "(litS \"x\")"},
			func() Prov { p := fn("NewT1", []string{"V0"}, []string{"*T1"}, false); p.Async = true; return p }(),
			func() Prov { p := fn("NewT2", nil, []string{"*T2"}, false); p.Async = true; return p }(),
			fn("NewT0", []string{"*T1", "*T2", "V0"}, []string{"*T0"}, false),
		}}}})
	// Two-result provider
	for _, e := range []bool{false, true} {
		add(&Program{Desc: fmt.Sprintf("multi-result err=%v", e), Types: typeNames(4), Decls: []Decl{{
			Name: "InitP", Request: "*T0", Provs: []Prov{
				fn("NewT1T2", []string{"*T3"}, []string{"*T1", "*T2"}, e),
				fn("NewT3", nil, []string{"*T3"}, false),
				fn("NewT0", []string{"*T2", "*T1"}, []string{"*T0"}, false),
			}}}})
	}
	// context.Context at each position
	for pos := 0; pos < 2; pos++ {
		ps := []string{"*T1"}
		if pos == 0 {
			ps = []string{"context.Context", "*T1"}
		} else {
			ps = []string{"*T1", "context.Context"}
		}
		add(&Program{Desc: fmt.Sprintf("ctx-arg pos=%d", pos), Types: append(typeNames(3), "A0"), Decls: []Decl{{
			Name: "InitP", Request: "*T0", Provs: []Prov{
				fn("NewT1", []string{"*A0"}, []string{"*T1"}, true),
				fn("NewT2", ps, []string{"*T2"}, false),
				fn("NewT0", []string{"*T2", "*T1"}, []string{"*T0"}, false),
			}}}})
	}
	// Two unsupplied arguments, duplicate parameter types
	add(&Program{Desc: "two-args dup-param", Types: append(typeNames(3), "A0", "A1"), Decls: []Decl{{
		Name: "InitP", Request: "*T0", Provs: []Prov{
			fn("NewT1", []string{"*A0", "*A1"}, []string{"*T1"}, false),
			fn("NewT2", []string{"*A0", "*T1"}, []string{"*T2"}, true),
			fn("NewT0", []string{"*T1", "*T2", "*A1"}, []string{"*T0"}, false),
		}}}})
	// Sets: inline nesting and by variable
	add(&Program{Desc: "sets", Types: typeNames(4), Decls: []Decl{{
		Name: "InitP", Request: "*T0", Provs: []Prov{
			fn("NewT3", nil, []string{"*T3"}, false),
			fn("NewT2", []string{"*T3"}, []string{"*T2"}, true),
			fn("NewT1", []string{"*T3"}, []string{"*T1"}, false),
			fn("NewT0", []string{"*T1", "*T2"}, []string{"*T0"}, false),
		}, Sets: [][]int{{0, 1}, {2}}, SetVars: []string{"baseSet", ""}}}})
	// Unneeded extra providers (sync / fallible): must never be invoked
	add(&Program{Desc: "unneeded", Types: typeNames(4), Decls: []Decl{{
		Name: "InitP", Request: "*T0", Provs: []Prov{
			fn("NewT1", nil, []string{"*T1"}, false),
			fn("NewT3", []string{"*T1"}, []string{"*T3"}, true),
			fn("NewT2", nil, []string{"*T2"}, false),
			fn("NewT0", []string{"*T1"}, []string{"*T0"}, false),
		}}}})
	// Literal provider
	add(&Program{Desc: "literal", Types: typeNames(3), Decls: []Decl{{
		Name: "InitP", Request: "*T0", Provs: []Prov{
			{Kind: KLiteral, Name: "lit0", Results: []string{"*T1"}, Err: true},
			fn("NewT2", []string{"*T1"}, []string{"*T2"}, false),
			fn("NewT0", []string{"*T1", "*T2"}, []string{"*T0"}, false),
		}}}})
	// Wide fan-in / diamond with 5 nodes
	add(&Program{Desc: "diamond5", Types: typeNames(5), Decls: []Decl{{
		Name: "InitP", Request: "*T0", Provs: []Prov{
			fn("NewT4", nil, []string{"*T4"}, false),
			fn("NewT3", []string{"*T4"}, []string{"*T3"}, true),
			fn("NewT2", []string{"*T4"}, []string{"*T2"}, false),
			fn("NewT1", []string{"*T2", "*T3"}, []string{"*T1"}, true),
			fn("NewT0", []string{"*T1", "*T4"}, []string{"*T0"}, false),
		}}}})

	var out []*Program
	for _, b := range bases {
		max := 0
		if !thorough {
			max = 16
		}
		out = append(out, asyncVariants(b, max)...)
	}
	out = append(out, fixed...)
	// Two injectors per file and two files per invocation.
	mk := func(name string, async uint) Decl {
		return coreDecl(name, [][]int{{1, 2}, {2}, {}}, async, 0b010, -1, 0)
	}
	// a consumer taking both results of one provider next to a deeper, all-sync dependency
	// chain, with unrelated Async roots that force goroutines (variables are predeclared)
	for m := 0; m < 8; m++ {
		a := func(bit int, p Prov) Prov { p.Async = m&(1<<bit) != 0; return p }
		as := func(p Prov) Prov { p.Async = true; return p }
		out = append(out, &Program{Family: "F2", Desc: fmt.Sprintf("multi-result plus sync chain plus async roots variant=%03b", m), Types: typeNames(7), Decls: []Decl{{
			Name: "InitP", Request: "*T0", Provs: []Prov{
				a(0, fn("NewT1T2", nil, []string{"*T1", "*T2"}, false)),
				a(1, fn("NewT3", nil, []string{"*T3"}, false)),
				a(2, fn("NewT4", []string{"*T3"}, []string{"*T4"}, false)),
				as(fn("NewT5", nil, []string{"*T5"}, false)),
				as(fn("NewT6", nil, []string{"*T6"}, false)),
				fn("NewT0", []string{"*T1", "*T2", "*T4", "*T5", "*T6"}, []string{"*T0"}, false),
			}}}})
	}
	out = append(out,
		&Program{Family: "F2", Desc: "two injectors, one file", Types: typeNames(3), Decls: []Decl{mk("InitP", 0b110), mk("InitQ", 0b011)}},
		&Program{Family: "F2", Desc: "two files", Types: typeNames(3), Decls: []Decl{mk("InitP", 0b100), mk("InitQ", 0b110)}, Files: [][]int{{0}, {1}}},
		&Program{Family: "F2", Desc: "two injectors sync+async", Types: typeNames(3), Decls: []Decl{mk("InitP", 0), mk("InitQ", 0b111)}},
	)
	return out
}

// F4 draws seeded random declarations with up to maxN providers.
func F4(seed int64, count, maxN int) []*Program {
	r := rand.New(rand.NewSource(seed))
	var out []*Program
	for k := 0; k < count; k++ {
		n := 3 + r.Intn(maxN-2)
		deps := make([][]int, n)
		for j := 1; j < n; j++ {
			// every node j>0 gets at least one consumer i<j
			i := r.Intn(j)
			deps[i] = append(deps[i], j)
			for i2 := 0; i2 < j; i2++ {
				if i2 != i && r.Intn(4) == 0 {
					deps[i2] = append(deps[i2], j)
				}
			}
		}
		for i := range deps {
			sortInts(deps[i])
		}
		async := uint(r.Intn(1 << uint(n)))
		errs := uint(r.Intn(1<<uint(n))) & uint(r.Intn(1<<uint(n)))
		argAt := r.Intn(n+1) - 1
		rev := uint(r.Intn(1 << uint(n)))
		p := &Program{Family: "F4", Types: typeNames(n)}
		if argAt >= 0 {
			p.Types = append(p.Types, "A0")
		}
		p.Desc = fmt.Sprintf("random n=%d async=%0*b err=%0*b arg@%d deps=%s", n, n, async, n, errs, argAt, strings.ReplaceAll(fmt.Sprint(deps), " ", ","))
		p.Decls = []Decl{coreDecl("InitP", deps, async, errs, argAt, rev)}
		out = append(out, p)
	}
	return out
}

func sortInts(a []int) {
	for i := 1; i < len(a); i++ {
		for j := i; j > 0 && a[j-1] > a[j]; j-- {
			a[j-1], a[j] = a[j], a[j-1]
		}
	}
	// dedupe
	k := 0
	for i, v := range a {
		if i == 0 || v != a[i-1] {
			a[k] = v
			k++
		}
	}
	_ = a[:k]
}

// F5: files with two injectors where the second one is a full F1-style
// declaration (n=4) with at least two Async providers: the second injector of a
// file is named and wired differently (shared name pool, shared imports).
// stride > 1 samples every stride-th variant.
func F5(maxErr int, stride int) []*Program {
	var out []*Program
	k := 0
	first := coreDecl("InitP", [][]int{{1, 2}, {}, {}}, 0b110, 0b010, -1, 0)
	for di, deps := range dags(4) {
		for async := uint(0); async < 16; async++ {
			if bits(async) < 2 {
				continue
			}
			for errs := uint(0); errs < 16; errs++ {
				if bits(errs) > maxErr {
					continue
				}
				k++
				if stride > 1 && k%stride != 0 {
					continue
				}
				types := append(typeNames(3), "U0", "U1", "U2", "U3")
				p := &Program{Family: "F5", Types: types}
				p.Desc = fmt.Sprintf("second-injector n=4 dag=%d async=%04b err=%04b", di, async, errs)
				p.Decls = []Decl{first, coreDeclP("U", "InitQ", deps, async, errs, -1, 0)}
				out = append(out, p)
			}
		}
	}
	return out
}

// named builds a declaration over arbitrarily named types: each entry of
// provs is "Type:dep1,dep2" (provider NewType(deps...) *Type); flags per
// provider: 'a' async, 'e' fallible, appended after '!'.
func named(injector, request string, provs ...string) Decl {
	d := Decl{Name: injector, Request: "*" + request}
	for _, p := range provs {
		flags := ""
		if i := strings.IndexByte(p, '!'); i >= 0 {
			flags, p = p[i+1:], p[:i]
		}
		parts := strings.SplitN(p, ":", 2)
		pr := Prov{Name: "New" + parts[0], Results: []string{"*" + parts[0]}, Kind: KFunc}
		if len(parts) == 2 && parts[1] != "" {
			for _, dep := range strings.Split(parts[1], ",") {
				pr.Params = append(pr.Params, "*"+dep)
			}
		}
		pr.Async = strings.Contains(flags, "a")
		pr.Err = strings.Contains(flags, "e")
		d.Provs = append(d.Provs, pr)
	}
	return d
}

// FN is the naming family: user identifiers chosen to collide with what the
// name allocator would hand out (C12 / C04-A gates).
func FN() []*Program {
	var out []*Program
	add := func(desc string, types []string, consts []string, files [][]int, decls ...Decl) {
		out = append(out, &Program{Family: "FN", Desc: desc, Types: types, Consts: consts, Decls: decls, Files: files})
	}
	// injector of file 1 named like the variable base name needed in file 2
	add("injector name = later variable base name, two files", []string{"App", "Server", "Db"}, nil, [][]int{{0}, {1}},
		named("app", "Server", "Server:Db", "Db:"),
		named("InitApp", "App", "App:Db", "Db:"))
	add("injector name = variable base name, same file", []string{"App", "Server", "Db"}, nil, nil,
		named("db", "Server", "Server:Db", "Db:"),
		named("InitApp", "App", "App:Db", "Db:"))
	// package-level identifiers that live in a generated sibling file (stringer, protobuf, ...)
	out = append(out, &Program{Family: "FN", Desc: "package-level names db/server declared in a generated file", Types: []string{"App", "Server", "Db"},
		GenConsts: []string{"var db = 1", "func server() int { return db }", "const app = 2"},
		Decls:     []Decl{named("InitApp", "App", "App:Server,Db", "Server:Db!a", "Db:!a")}})
	// suffixed user types
	add("types Foo and Foo0, two injectors needing both", []string{"Foo", "Foo0", "Bar"}, nil, nil,
		named("InitBar", "Bar", "Bar:Foo,Foo0", "Foo:", "Foo0:"),
		named("InitBar2", "Bar", "Bar:Foo,Foo0", "Foo:", "Foo0:"))
	add("type FooCh next to an awaited Foo", []string{"Foo", "FooCh", "Bar", "Baz"}, nil, nil,
		named("InitBar", "Bar", "Bar:Foo,FooCh,Baz", "Foo:!a", "FooCh:!a", "Baz:Foo!a"))
	// the FooCh value is named before Foo's done-channel: as an injector argument, as the
	// result of an earlier synchronous provider, and with Foo awaited in a goroutine or in main
	add("type FooCh as injector argument next to an awaited Foo", []string{"Foo", "FooCh", "Bar", "Baz", "Qux"}, nil, nil,
		named("InitBar", "Bar", "Bar:Baz,FooCh,Qux", "Foo:!a", "Qux:!a", "Baz:Foo,Qux!a"))
	add("type FooCh from an earlier sync provider next to an awaited Foo", []string{"Foo", "FooCh", "Bar", "Baz", "Qux"}, nil, nil,
		named("InitBar", "Bar", "Bar:Baz,FooCh,Qux", "FooCh:", "Foo:!a", "Qux:!a", "Baz:Foo,Qux!a"))
	add("type FooCh consumed first, Foo awaited in main", []string{"Foo", "FooCh", "Bar", "Qux"}, nil, nil,
		named("InitBar", "Bar", "Bar:FooCh,Foo,Qux", "FooCh:", "Qux:!a", "Foo:!a"))
	add("type Err0 with two fallible providers", []string{"Err0", "A", "B"}, nil, nil,
		named("InitB", "B", "B:A,Err0", "A:!e", "Err0:!e"))
	add("package-level variable named like a generated variable", []string{"Config", "App"}, []string{"var config = 1", "var app0, configCh = 2, 3"}, nil,
		named("InitApp", "App", "App:Config", "Config:!a"))
	add("type Float3 needed by four injectors (float32 is predeclared)", []string{"Float3", "A", "B", "C", "D"}, nil, [][]int{{0, 1}, {2, 3}},
		named("InitA", "A", "A:Float3", "Float3:"), named("InitB", "B", "B:Float3", "Float3:"),
		named("InitC", "C", "C:Float3", "Float3:"), named("InitD", "D", "D:Float3", "Float3:"))
	add("type Int6 needed by six injectors (int64 is predeclared)", []string{"Int6", "A", "B", "C", "D", "E", "F"}, nil, nil,
		named("InitA", "A", "A:Int6", "Int6:"), named("InitB", "B", "B:Int6", "Int6:"), named("InitC", "C", "C:Int6", "Int6:"),
		named("InitD", "D", "D:Int6", "Int6:"), named("InitE", "E", "E:Int6", "Int6:"), named("InitF", "F", "F:Int6", "Int6:"))
	add("type named like a predeclared identifier suffix", []string{"Int", "String", "App"}, nil, nil,
		named("InitApp", "App", "App:Int,String", "Int:", "String:"),
		named("InitApp2", "App", "App:Int,String", "Int:", "String:"))
	// the multi-file programs again with one generator invocation per file (the earlier
	// file's output is on disk, as a generated file, when the later file is processed)
	for _, p := range append([]*Program{}, out...) {
		if len(p.Files) > 1 {
			cp := *p
			cp.SeparateRuns = true
			cp.Desc += ", one invocation per file"
			out = append(out, &cp)
		}
	}
	return out
}

// Invalid is a declaration the generator must refuse, with the type names its
// diagnostic has to mention.
type Invalid struct {
	Prog  *Program
	Kind  string
	Names []string
}

// FI plants a back edge / duplicate supplier / orphan Struct into otherwise
// valid declarations.
func FI() []Invalid {
	var out []Invalid
	mk := func(kind, desc string, names []string, p *Program) {
		p.Family, p.Desc = "FI", kind+": "+desc
		out = append(out, Invalid{Prog: p, Kind: kind, Names: names})
	}
	mk("cycle", "two-node cycle below the root", []string{"T1", "T2"}, &Program{Types: typeNames(3), Decls: []Decl{{Name: "InitP", Request: "*T0", Provs: []Prov{
		fn("NewT0", []string{"*T1"}, []string{"*T0"}, false), fn("NewT1", []string{"*T2"}, []string{"*T1"}, false), fn("NewT2", []string{"*T1"}, []string{"*T2"}, false)}}}})
	mk("cycle", "self loop", []string{"T1"}, &Program{Types: typeNames(2), Decls: []Decl{{Name: "InitP", Request: "*T0", Provs: []Prov{
		fn("NewT0", []string{"*T1"}, []string{"*T0"}, false), fn("NewT1", []string{"*T1"}, []string{"*T1"}, false)}}}})
	mk("cycle", "three-node cycle through the root, async", []string{"T0", "T1", "T2"}, &Program{Types: typeNames(3), Decls: []Decl{{Name: "InitP", Request: "*T0", Provs: []Prov{
		func() Prov { p := fn("NewT0", []string{"*T1"}, []string{"*T0"}, false); p.Async = true; return p }(), fn("NewT1", []string{"*T2"}, []string{"*T1"}, true), fn("NewT2", []string{"*T0"}, []string{"*T2"}, false)}}}})
	mk("cycle", "cycle reached through a struct field", []string{"S0", "T1"}, &Program{Types: typeNames(2), Structs: map[string][]string{"S0": {"F0 *T1"}}, Decls: []Decl{{Name: "InitP", Request: "*T0", Provs: []Prov{
		fn("NewT0", []string{"*T1"}, []string{"*T0"}, false), fn("NewS0", []string{"*T1"}, []string{"*S0"}, false), {Kind: KStruct, Struct: "*S0", Fields: []string{"F0"}, FTypes: []string{"*T1"}}}}}})
	mk("duplicate", "two functions supply the same type", []string{"T1"}, &Program{Types: typeNames(2), Decls: []Decl{{Name: "InitP", Request: "*T0", Provs: []Prov{
		fn("NewT0", []string{"*T1"}, []string{"*T0"}, false), fn("NewT1", nil, []string{"*T1"}, false), fn("NewT1b", nil, []string{"*T1"}, false)}}}})
	mk("duplicate", "unused duplicate supplier", []string{"T2"}, &Program{Types: typeNames(3), Decls: []Decl{{Name: "InitP", Request: "*T0", Provs: []Prov{
		fn("NewT0", nil, []string{"*T0"}, false), fn("NewT2", nil, []string{"*T2"}, false), fn("NewT2b", nil, []string{"*T2"}, true)}}}})
	mk("duplicate", "Bind adds an interface another provider returns", []string{"I0"}, &Program{Types: typeNames(3), Ifaces: map[string]string{"I0": "T1"}, Decls: []Decl{{Name: "InitP", Request: "*T0", Provs: []Prov{
		fn("NewT0", []string{"I0"}, []string{"*T0"}, false), func() Prov { p := fn("NewT1", nil, []string{"*T1"}, false); p.Bind = "I0"; return p }(), fn("NewI0", nil, []string{"I0"}, false)}}}})
	mk("duplicate", "struct field type also supplied by a function", []string{"T1"}, &Program{Types: typeNames(2), Structs: map[string][]string{"S0": {"F0 *T1"}}, Decls: []Decl{{Name: "InitP", Request: "*T0", Provs: []Prov{
		fn("NewT0", []string{"*T1"}, []string{"*T0"}, false), fn("NewS0", nil, []string{"*S0"}, false), {Kind: KStruct, Struct: "*S0", Fields: []string{"F0"}, FTypes: []string{"*T1"}}, fn("NewT1", nil, []string{"*T1"}, false)}}}})
	mk("duplicate", "two results of one provider and another provider", []string{"T2"}, &Program{Types: typeNames(3), Decls: []Decl{{Name: "InitP", Request: "*T0", Provs: []Prov{
		fn("NewT0", []string{"*T1", "*T2"}, []string{"*T0"}, false), fn("NewT1T2", nil, []string{"*T1", "*T2"}, false), fn("NewT2", nil, []string{"*T2"}, false)}}}})
	mk("orphan-struct", "Struct expansion without a source", []string{"S0"}, &Program{Types: typeNames(2), Structs: map[string][]string{"S0": {"F0 *T1"}}, Decls: []Decl{{Name: "InitP", Request: "*T0", Provs: []Prov{
		fn("NewT0", []string{"*T1"}, []string{"*T0"}, false), {Kind: KStruct, Struct: "*S0", Fields: []string{"F0"}, FTypes: []string{"*T1"}}}}}})
	mk("orphan-struct", "Struct expansion whose struct is itself only a field", []string{"S1"}, &Program{Types: typeNames(2), Structs: map[string][]string{"S0": {"F0 *S1"}, "S1": {"G0 *T1"}}, Decls: []Decl{{Name: "InitP", Request: "*T0", Provs: []Prov{
		fn("NewT0", []string{"*T1"}, []string{"*T0"}, false), {Kind: KStruct, Struct: "*S1", Fields: []string{"G0"}, FTypes: []string{"*T1"}}, fn("NewS0", nil, []string{"*S0"}, false), {Kind: KStruct, Struct: "*S0", Fields: []string{"F0"}, FTypes: []string{"*S1"}}}}}})
	// second declaration of a file is invalid: the first one's output must not appear either
	mk("cycle", "second injector of the file is cyclic", []string{"T1"}, &Program{Types: typeNames(3), Decls: []Decl{
		{Name: "InitOK", Request: "*T2", Provs: []Prov{fn("NewT2", nil, []string{"*T2"}, false)}},
		{Name: "InitP", Request: "*T0", Provs: []Prov{fn("NewT0", []string{"*T1"}, []string{"*T0"}, false), fn("NewT1", []string{"*T1"}, []string{"*T1"}, false)}}}})
	return out
}

// F6 is the layered family (the shape of real applications): one base
// provider L0, k providers L1 each requiring L0, two providers L2 each
// requiring an ordered pair of distinct L1 providers, and a root requiring both
// L2 providers and every L1 provider no L2 uses. Every Async subset of L1 and
// L2; stride samples.
func F6(k int, stride int) []*Program {
	var out []*Program
	type pair struct{ a, b int }
	var pairs []pair
	for a := 0; a < k; a++ {
		for b := 0; b < k; b++ {
			if a != b {
				pairs = append(pairs, pair{a, b})
			}
		}
	}
	cnt := 0
	for _, px := range pairs {
		for _, py := range pairs {
			for mask := 0; mask < 1<<uint(k+2); mask++ {
				cnt++
				if stride > 1 && cnt%stride != 0 {
					continue
				}
				// types: R, X, Y, L1_0..L1_{k-1}, B
				types := []string{"R", "X", "Y", "B"}
				for i := 0; i < k; i++ {
					types = append(types, fmt.Sprintf("M%d", i))
				}
				d := Decl{Name: "InitP", Request: "*R"}
				used := map[int]bool{px.a: true, px.b: true, py.a: true, py.b: true}
				d.Provs = append(d.Provs, fn("NewB", nil, []string{"*B"}, false))
				for i := 0; i < k; i++ {
					p := fn(fmt.Sprintf("NewM%d", i), []string{"*B"}, []string{fmt.Sprintf("*M%d", i)}, false)
					p.Async = mask&(1<<uint(i)) != 0
					d.Provs = append(d.Provs, p)
				}
				x := fn("NewX", []string{fmt.Sprintf("*M%d", px.a), fmt.Sprintf("*M%d", px.b)}, []string{"*X"}, false)
				x.Async = mask&(1<<uint(k)) != 0
				y := fn("NewY", []string{fmt.Sprintf("*M%d", py.a), fmt.Sprintf("*M%d", py.b)}, []string{"*Y"}, false)
				y.Async = mask&(1<<uint(k+1)) != 0
				rp := []string{"*X", "*Y"}
				for i := 0; i < k; i++ {
					if !used[i] {
						rp = append(rp, fmt.Sprintf("*M%d", i))
					}
				}
				d.Provs = append(d.Provs, x, y, fn("NewR", rp, []string{"*R"}, false))
				out = append(out, &Program{Family: "F6", Types: types, Decls: []Decl{d},
					Desc: fmt.Sprintf("layered k=%d X(M%d,M%d) Y(M%d,M%d) async=%0*b", k, px.a, px.b, py.a, py.b, k+2, mask)})
			}
		}
	}
	return out
}

// FD is the determinism family (C11 gates): inputs whose output depends on
// decisions that could be order- or history-sensitive.
func FD() []*Program {
	var out []*Program
	// two imported packages with the same name, both needed in the output
	out = append(out, &Program{Family: "FD", Desc: "same-named imports text/template and html/template", Types: []string{"R"},
		ExtraImports: []string{`htemplate "html/template"`, `"text/template"`},
		Decls: []Decl{{Name: "InitP", Request: "*R", Provs: []Prov{
			fn("NewR", []string{"*template.Template", "*htemplate.Template"}, []string{"*R"}, false),
		}}}})
	out = append(out, &Program{Family: "FD", Desc: "same-named imports, async", Types: []string{"R", "Q"},
		ExtraImports: []string{`htemplate "html/template"`, `"text/template"`},
		Decls: []Decl{{Name: "InitP", Request: "*R", Provs: []Prov{
			func() Prov {
				p := fn("NewQ", []string{"*htemplate.Template"}, []string{"*Q"}, true)
				p.Async = true
				return p
			}(),
			fn("NewR", []string{"*template.Template", "*Q"}, []string{"*R"}, false),
		}}}})
	// injector names colliding with variable base names (history dependence)
	out = append(out, &Program{Family: "FD", Desc: "injector named like a variable", Types: []string{"App", "Db"},
		Decls: []Decl{named("app", "App", "App:Db", "Db:"), named("InitDb", "Db", "Db:")}})
	out = append(out, &Program{Family: "FD", Desc: "later injector named like a variable of an earlier one", Types: []string{"App", "Server", "Db"},
		Decls: []Decl{named("InitApp", "App", "App:Db", "Db:"), named("db", "Server", "Server:Db", "Db:")}})
	out = append(out, &Program{Family: "FD", Desc: "two files, second needs first's injector name", Types: []string{"App", "Server", "Db"}, Files: [][]int{{0}, {1}},
		Decls: []Decl{named("server", "Server", "Server:Db", "Db:"), named("InitApp", "App", "App:Db,Server", "Db:", "Server:Db")}})
	// three declaration files (k.go, k2.go, k3.go): single-file invocations next to the
	// leftovers of the siblings' outputs
	out = append(out, &Program{Family: "FD", Desc: "three files, one declaration each", Types: []string{"App", "Server", "Db", "Cache", "Mailer"}, Files: [][]int{{0}, {1}, {2}},
		Decls: []Decl{
			named("InitServer", "Server", "Server:Db", "Db:"),
			named("InitCache", "Cache", "Cache:Db", "Db:!a"),
			named("InitMailer", "Mailer", "Mailer:Db,Cache", "Db:!a", "Cache:Db!a")}})
	for _, p := range F2(false) {
		if strings.Contains(p.Desc, "async=11") || strings.Contains(p.Desc, "two ") {
			out = append(out, p)
		}
	}
	out = append(out, F6(2, 7)...)
	return out
}

// FH: user types whose base names equal identifiers the generator hard-codes
// (eg, ctx, ch, zero, err, errgroup) in async injectors with an error result.
func FH() []*Program {
	var out []*Program
	for _, n := range []string{"Eg", "Ctx", "Ch", "Zero", "Err", "Errgroup", "Context", "Kessoku"} {
		out = append(out, &Program{Family: "FH", Desc: "type named " + n + " in an async injector", Types: []string{n, "A", "B", "R"},
			Decls: []Decl{named("InitR", "R", "R:A,B,"+n, "A:!ae", "B:"+n+"!a", n+":!e")}})
	}
	// Async + Struct expansion (assignment to predeclared variables)
	out = append(out, &Program{Family: "FH", Desc: "struct expansion consumed across goroutines", Types: typeNames(5), Structs: map[string][]string{"S0": {"F0 *T1", "F1 *T2"}}, Decls: []Decl{{
		Name: "InitP", Request: "*T0", Provs: []Prov{
			func() Prov { p := fn("NewS0", nil, []string{"*S0"}, false); p.Async = true; return p }(),
			{Kind: KStruct, Struct: "*S0", Fields: []string{"F0", "F1"}, FTypes: []string{"*T1", "*T2"}},
			func() Prov { p := fn("NewT3", []string{"*T1"}, []string{"*T3"}, false); p.Async = true; return p }(),
			func() Prov { p := fn("NewT4", []string{"*T2"}, []string{"*T4"}, false); p.Async = true; return p }(),
			fn("NewT0", []string{"*T3", "*T4"}, []string{"*T0"}, false),
		}}}})
	// two files of one package whose outputs need different imports
	out = append(out, &Program{Family: "FH", Desc: "two files needing different imports", Types: typeNames(2), Files: [][]int{{0}, {1}},
		ExtraImports: []string{`"bytes"`, `"strings"`},
		Decls: []Decl{
			{Name: "InitP", Request: "*T0", Provs: []Prov{fn("NewT0", []string{"*strings.Builder"}, []string{"*T0"}, false)}},
			{Name: "InitQ", Request: "*T1", Provs: []Prov{fn("NewT1", []string{"*bytes.Buffer"}, []string{"*T1"}, false)}}}})
	out = append(out, &Program{Family: "FH", Desc: "two files needing different imports, reversed", Types: typeNames(2), Files: [][]int{{0}, {1}},
		ExtraImports: []string{`"bytes"`, `"strings"`},
		Decls: []Decl{
			{Name: "InitQ", Request: "*T1", Provs: []Prov{fn("NewT1", []string{"*bytes.Buffer"}, []string{"*T1"}, false)}},
			{Name: "InitP", Request: "*T0", Provs: []Prov{fn("NewT0", []string{"*strings.Builder", "*bytes.Buffer"}, []string{"*T0"}, true)}}}})
	out = append(out, &Program{Family: "FH", Desc: "two files needing the same external type", Types: typeNames(2), Files: [][]int{{0}, {1}},
		ExtraImports: []string{`"strings"`},
		Decls: []Decl{
			{Name: "InitP", Request: "*T0", Provs: []Prov{fn("NewT0", []string{"*strings.Builder"}, []string{"*T0"}, false)}},
			{Name: "InitQ", Request: "*T1", Provs: []Prov{func() Prov {
				p := fn("NewT1", []string{"*strings.Builder"}, []string{"*T1"}, false)
				p.Async = true
				return p
			}()}}}})
	// composite parameter types whose only use of an external package is a map key, a type
	// argument or a variable of the var block (second file: the declaration file does not
	// import the package itself)
	asyncFn := func(name string, params, results []string) Prov {
		p := fn(name, params, results, false)
		p.Async = true
		return p
	}
	for _, c := range []struct{ desc, typ string }{
		{"map keyed by an external type", "map[time.Duration]string"},
		{"map with an external value type", "map[string]time.Duration"},
		{"generic local type instantiated with an external type", "Box[time.Duration]"},
		{"generic local type nested in a map key position", "map[Box[time.Duration]]int"},
		{"function type with an external parameter", "func(time.Duration) string"},
		{"channel of an external type", "<-chan time.Duration"},
	} {
		out = append(out, &Program{Family: "FH", Desc: c.desc + " as injector argument, second file", Types: typeNames(2), Files: [][]int{{0}, {1}},
			ExtraImports: []string{`"time"`}, Consts: []string{"type Box[T comparable] struct{ V T }"},
			Decls: []Decl{
				{Name: "InitP", Request: "*T0", Provs: []Prov{fn("NewT0", nil, []string{"*T0"}, false)}},
				{Name: "InitQ", Request: "*T1", Provs: []Prov{fn("NewT1", []string{c.typ}, []string{"*T1"}, false)}}}})
		out = append(out, &Program{Family: "FH", Desc: c.desc + " in the var block of an async injector, second file", Types: typeNames(4), Files: [][]int{{0}, {1}},
			ExtraImports: []string{`"time"`}, Consts: []string{"type Box[T comparable] struct{ V T }"},
			Decls: []Decl{
				{Name: "InitP", Request: "*T0", Provs: []Prov{fn("NewT0", nil, []string{"*T0"}, false)}},
				{Name: "InitQ", Request: "*T1", Provs: []Prov{
					asyncFn("NewM", nil, []string{c.typ}),
					asyncFn("NewT2", nil, []string{"*T2"}),
					asyncFn("NewT3", []string{c.typ}, []string{"*T3"}),
					fn("NewT1", []string{"*T2", "*T3"}, []string{"*T1"}, false)}}}})
	}
	// an external package the declaration file does not import, whose name is already a
	// package-level identifier (file 0 imports it under an alias)
	out = append(out, &Program{Family: "FH", Desc: "external package name taken by a package-level identifier, second file", Types: typeNames(2), Files: [][]int{{0}, {1}},
		ExtraImports: []string{`str "strings"`}, Consts: []string{"var strings = 1", "var _ = strings"},
		Decls: []Decl{
			{Name: "InitP", Request: "*T0", Provs: []Prov{fn("NewT0", nil, []string{"*T0"}, false)}},
			{Name: "InitQ", Request: "*T1", Provs: []Prov{fn("NewT1", []string{"*str.Builder"}, []string{"*T1"}, false)}}}})
	out = append(out, FT()...)
	// a provider result nothing consumes whose type is the file's only use of a package, in an
	// injector with goroutines (the var block skips the discarded result)
	out = append(out, &Program{Family: "FH", Desc: "discarded result of an external type, goroutines", Types: typeNames(4),
		ExtraImports: []string{`"bytes"`},
		Decls: []Decl{{Name: "InitP", Request: "*T0", Provs: []Prov{
			asyncFn("NewT1", nil, []string{"*T1"}),
			asyncFn("NewT3", nil, []string{"*T3"}),
			fn("NewT2B", []string{"*T1"}, []string{"*T2", "*bytes.Buffer"}, false),
			fn("NewT0", []string{"*T2", "*T3"}, []string{"*T0"}, false)}}}})
	out = append(out, &Program{Family: "FH", Desc: "discarded result of an external type, no goroutines", Types: typeNames(3),
		ExtraImports: []string{`"bytes"`},
		Decls: []Decl{{Name: "InitP", Request: "*T0", Provs: []Prov{
			fn("NewT1", nil, []string{"*T1"}, false),
			fn("NewT2B", []string{"*T1"}, []string{"*T2", "*bytes.Buffer"}, false),
			fn("NewT0", []string{"*T2"}, []string{"*T0"}, false)}}}})
	// two files of one package, each with an async injector and different imports
	out = append(out, &Program{Family: "FH", Desc: "two files, async injectors", Types: typeNames(3), Files: [][]int{{0}, {1}}, Decls: []Decl{
		coreDecl("InitP", [][]int{{1, 2}, {}, {}}, 0b110, 0b010, -1, 0),
		coreDecl("InitQ", [][]int{{1, 2}, {}, {}}, 0b110, 0b000, -1, 0)}})
	return out
}

// FG is the "several goroutines that need each other" family: nr input-free providers
// (at least two of them Async, so that at least one eg.Go goroutine exists beside the
// calling goroutine), nm middle providers each requiring one or two earlier nodes (roots or
// earlier middles), and a root provider requiring either the sinks only (rootAll=false) or
// every node. Every Async subset of the middles, every Async subset of the roots with >= 2
// members. errMode: 0 no fallible provider; 1 one program per single fallible non-root node;
// 2 one fallible node per program, position chosen round-robin. ctxMode likewise adds a
// context.Context parameter to one provider (0 none, 2 round-robin incl. "none").
// stride > 1 samples every stride-th program.
func FG(nr, nm int, errMode, ctxMode, stride int) []*Program {
	n := 1 + nm + nr
	// node indices: 0 root R, 1..nm middles (index nm is the first middle m_0), nm+1..nm+nr roots
	type choice [][]int // deps per middle, in order m_0..m_{nm-1}
	var combos []choice
	var rec func(j int, cur choice)
	rec = func(j int, cur choice) {
		if j == nm {
			c := make(choice, nm)
			copy(c, cur)
			combos = append(combos, c)
			return
		}
		// earlier nodes: roots and middles m_0..m_{j-1}
		var earlier []int
		for r := 0; r < nr; r++ {
			earlier = append(earlier, nm+1+r)
		}
		for q := 0; q < j; q++ {
			earlier = append(earlier, nm-q)
		}
		for a := 0; a < len(earlier); a++ {
			rec(j+1, append(cur, []int{earlier[a]}))
			for b := a + 1; b < len(earlier); b++ {
				rec(j+1, append(cur, []int{earlier[a], earlier[b]}))
			}
		}
	}
	rec(0, nil)
	var out []*Program
	cnt := 0
	for ci, c := range combos {
		for _, rootAll := range []bool{false, true} {
			deps := make([][]int, n)
			consumed := map[int]bool{}
			for j := 0; j < nm; j++ {
				idx := nm - j
				deps[idx] = append([]int{}, c[j]...)
				sortInts(deps[idx])
				for _, d := range c[j] {
					consumed[d] = true
				}
			}
			for i := 1; i < n; i++ {
				if rootAll || !consumed[i] {
					deps[0] = append(deps[0], i)
				}
			}
			if rootAll && len(deps[0]) == n-1-len(consumed) {
				continue // same program as rootAll=false
			}
			for rmask := uint(0); rmask < 1<<uint(nr); rmask++ {
				if bits(rmask) < 2 {
					continue
				}
				for mmask := uint(0); mmask < 1<<uint(nm); mmask++ {
					async := rmask<<uint(nm+1) | mmask<<1
					var errsList []uint
					switch errMode {
					case 0:
						errsList = []uint{0}
					case 1:
						for i := 1; i < n; i++ {
							errsList = append(errsList, 1<<uint(i))
						}
					default:
						errsList = []uint{1 << uint(1+cnt%(n-1))}
					}
					for _, errs := range errsList {
						cnt++
						if stride > 1 && cnt%stride != 0 {
							continue
						}
						d := coreDecl("InitP", deps, async, errs, -1, 0)
						ctxAt := -1
						if ctxMode != 0 {
							ctxAt = cnt%(n+1) - 1 // -1: none
						}
						if ctxAt >= 0 {
							// coreDecl lists providers n-1..0
							pr := &d.Provs[n-1-ctxAt]
							pr.Params = append([]string{"context.Context"}, pr.Params...)
						}
						out = append(out, &Program{Family: "FG", Types: typeNames(n), Decls: []Decl{d},
							Desc: fmt.Sprintf("goroutines nr=%d nm=%d combo=%d rootAll=%v async=%0*b err=%0*b ctx@%d deps=%s", nr, nm, ci, rootAll, n, async, n, errs, ctxAt, strings.ReplaceAll(fmt.Sprint(deps), " ", ","))})
					}
				}
			}
		}
	}
	return out
}

// FW is the wide family: k Async providers that all require one base provider (sync or
// Async, or no base at all), and a root requiring all of them: more goroutines than any
// other family starts (k = 5..7).
func FW() []*Program {
	var out []*Program
	for k := 5; k <= 7; k++ {
		for base := 0; base < 3; base++ { // 0 none, 1 sync base, 2 Async base
			for _, e := range []bool{false, true} {
				n := k + 1
				if base > 0 {
					n++
				}
				deps := make([][]int, n)
				var async, errs uint
				for i := 1; i <= k; i++ {
					deps[0] = append(deps[0], i)
					async |= 1 << uint(i)
					if base > 0 {
						deps[i] = []int{k + 1}
					}
				}
				if base == 2 {
					async |= 1 << uint(k+1)
				}
				if e {
					errs = 1 << 2
				}
				out = append(out, &Program{Family: "FW", Types: typeNames(n), Decls: []Decl{coreDecl("InitP", deps, async, errs, -1, 0)},
					Desc: fmt.Sprintf("wide k=%d base=%d err=%v", k, base, e)})
			}
		}
	}
	// k input-free Async providers (k = 8..10: more than the scheduler's queue holds at first),
	// j Async providers each joining two of them, one sync provider, a root needing everything
	for k := 8; k <= 10; k++ {
		for j := 2; j <= 4; j += 2 {
			n := 1 + j + 1 + k
			deps := make([][]int, n)
			var async uint
			// indices: 0 root, 1..j joiners, j+1 sync provider, j+2.. roots
			for r := 0; r < k; r++ {
				async |= 1 << uint(j+2+r)
			}
			for q := 0; q < j; q++ {
				deps[1+q] = []int{j + 2 + (2*q)%k, j + 2 + (2*q+1)%k}
				async |= 1 << uint(1+q)
			}
			deps[j+1] = []int{j + 2}
			for i := 1; i < n; i++ {
				deps[0] = append(deps[0], i)
			}
			out = append(out, &Program{Family: "FW", Types: typeNames(n), Decls: []Decl{coreDecl("InitP", deps, async, 0, -1, 0)},
				Desc: fmt.Sprintf("wide roots=%d joiners=%d", k, j)})
		}
	}
	// eight input-free Async providers, three Async joiners over overlapping pairs of the first
	// three, one sync provider below the third, a root needing everything
	{
		// 0 root, 1..3 joiners, 4 sync, 5..12 roots
		deps := make([][]int, 13)
		deps[1], deps[2], deps[3], deps[4] = []int{5, 6}, []int{5, 7}, []int{6, 7}, []int{7}
		var async uint
		for i := 1; i <= 3; i++ {
			async |= 1 << uint(i)
		}
		for i := 5; i <= 12; i++ {
			async |= 1 << uint(i)
		}
		for i := 1; i < 13; i++ {
			deps[0] = append(deps[0], i)
		}
		for _, rev := range []uint{0, 1} {
			out = append(out, &Program{Family: "FW", Types: typeNames(13), Decls: []Decl{coreDecl("InitP", deps, async, 0, -1, rev)},
				Desc: fmt.Sprintf("wide roots=8 overlapping joiners rev=%d", rev)})
		}
	}
	return out
}

// FT is the transitive-package family: types of packages that the declaration file does
// not import (they are reached through the signatures of package extapp only), so the
// generated file has to introduce the import itself; the package's name is free, already a
// package-level identifier of the user's package ("config"), or a predeclared identifier
// ("max"). Used by the C04 compile gate and the C12 naming gate.
func FT() []*Program {
	var out []*Program
	asyncFn := func(name string, params, results []string) Prov {
		p := fn(name, params, results, false)
		p.Async = true
		return p
	}
	// a package reached only through another package's signatures (not imported by the
	// declaration file), its name free or already a package-level identifier
	ext := func(name string, params, results []string) Prov {
		p := fn(name, params, results, false)
		p.External = true
		return p
	}
	for _, taken := range []bool{false, true} {
		var consts []string
		if taken {
			consts = []string{"var config = 1", "var _ = config"}
		}
		out = append(out, &Program{Family: "FT", Desc: fmt.Sprintf("argument type from a transitively reached package, name taken=%v", taken), Types: typeNames(1),
			ExtraImports: []string{`"verifcorpus/ext/extapp"`}, Consts: consts,
			Decls: []Decl{{Name: "InitP", Request: "*extapp.Server", Provs: []Prov{ext("extapp.NewServer", []string{"*config.Config"}, []string{"*extapp.Server"})}}}})
		out = append(out, &Program{Family: "FT", Desc: fmt.Sprintf("generic argument type from a transitively reached package, name taken=%v", taken), Types: typeNames(1),
			ExtraImports: []string{`"verifcorpus/ext/extapp"`}, Consts: consts,
			Decls: []Decl{{Name: "InitP", Request: "*extapp.Server", Provs: []Prov{ext("extapp.NewBoxed", []string{"config.Box[*config.Config]"}, []string{"*extapp.Server"})}}}})
		out = append(out, &Program{Family: "FT", Desc: fmt.Sprintf("var-block type from a transitively reached package, name taken=%v", taken), Types: typeNames(3),
			ExtraImports: []string{`"verifcorpus/ext/extapp"`}, Consts: consts,
			Decls: []Decl{{Name: "InitP", Request: "*T0", Provs: []Prov{
				func() Prov { p := ext("extapp.LoadConfig", nil, []string{"*config.Config"}); p.Async = true; return p }(),
				func() Prov {
					p := ext("extapp.NewServer", []string{"*config.Config"}, []string{"*extapp.Server"})
					p.Async = true
					return p
				}(),
				asyncFn("NewT1", nil, []string{"*T1"}),
				asyncFn("NewT2", []string{"*T1"}, []string{"*T2"}),
				fn("NewT0", []string{"*extapp.Server", "*T2"}, []string{"*T0"}, false)}}}})
	}
	// package named like a predeclared identifier
	out = append(out, &Program{Family: "FT", Desc: "argument type from a transitively reached package named max", Types: typeNames(1),
		ExtraImports: []string{`"verifcorpus/ext/extapp"`},
		Decls:        []Decl{{Name: "InitP", Request: "*extapp.Server", Provs: []Prov{ext("extapp.NewLimited", []string{"*max.Limit"}, []string{"*extapp.Server"})}}}})
	out = append(out, &Program{Family: "FT", Desc: "var-block type from a transitively reached package named max", Types: typeNames(3),
		ExtraImports: []string{`"verifcorpus/ext/extapp"`},
		Decls: []Decl{{Name: "InitP", Request: "*T0", Provs: []Prov{
			func() Prov { p := ext("extapp.LoadLimit", nil, []string{"*max.Limit"}); p.Async = true; return p }(),
			func() Prov {
				p := ext("extapp.NewLimited", []string{"*max.Limit"}, []string{"*extapp.Server"})
				p.Async = true
				return p
			}(),
			asyncFn("NewT1", nil, []string{"*T1"}),
			asyncFn("NewT2", []string{"*T1"}, []string{"*T2"}),
			fn("NewT0", []string{"*extapp.Server", "*T2"}, []string{"*T0"}, false)}}}})
	return out
}

// FS is the star family: three input-free providers and a root needing all of them, every
// Async subset and every set of fallible providers among the three (several fallible providers
// at once, on the calling goroutine and in goroutines).
func FS() []*Program {
	var out []*Program
	deps := [][]int{{1, 2, 3}, {}, {}, {}}
	for async := uint(0); async < 16; async += 2 {
		for errs := uint(0); errs < 16; errs += 2 {
			out = append(out, &Program{Family: "FS", Types: typeNames(4), Decls: []Decl{coreDecl("InitP", deps, async, errs, -1, 0)},
				Desc: fmt.Sprintf("star async=%04b err=%04b", async, errs)})
		}
	}
	return out
}
