// Package corpus enumerates abstract Inject declarations within stated bounds
// and prints them as Go packages (the bounded "programs" dimension, DESIGN §3.3).
package corpus

import (
	"fmt"
	"sort"
	"strings"
)

// Kinds of provider.
const (
	KFunc    = iota // kessoku.Provide(NewX)
	KLiteral        // kessoku.Provide(func(...) ... { ... })  (opaque by position)
	KValue          // kessoku.Value(v)
	KStruct         // kessoku.Struct[*S]()
)

type Prov struct {
	Name    string   // function name (KFunc) or a label
	Params  []string // Go type expressions
	Results []string // non-error results
	Err     bool
	Async   bool
	Bind    string // interface name, "" if none
	// BindOutside writes kessoku.Bind[I](kessoku.Async(...)) instead of Async(Bind(...)).
	BindOutside bool
	// ErrAlias: the error result is spelled through an alias of error (type Failure = error).
	ErrAlias bool
	Kind     int
	Struct   string   // KStruct: the struct type expression, e.g. "*S0"
	Fields   []string // KStruct: exported field names (sorted), types in FieldTypes
	FTypes   []string
	// External: the function lives in another package (Name is qualified, e.g. "extapp.NewServer");
	// nothing is emitted for it.
	External bool
	ValueOf  string // KValue: expression
	VTerm    string // KValue: the SMT term of the constant, e.g. (litS "x")
}

type Decl struct {
	Name    string
	Request string
	Provs   []Prov // declaration order
	// Sets groups provider indices: each inner slice becomes one kessoku.Set
	// (inline if SetVar=="" else a package-level variable); providers not in
	// any set are listed directly.
	Sets    [][]int
	SetVars []string
	// JointWith: providers of another, unreferenced Set variable ("otherSet") that is declared
	// in one var spec together with the declaration's first set variable:
	// var otherSet, mySet = kessoku.Set(...), kessoku.Set(...)
	JointWith []Prov
}

type Program struct {
	Pkg     string
	Family  string
	Desc    string
	Types   []string            // named empty struct types T0...
	Ifaces  map[string]string   // interface name -> implementing type name (pointer receiver)
	Structs map[string][]string // field struct name -> "Field Type" lines
	Consts  []string            // extra top-level declarations (Value sources)
	// GenConsts are top-level declarations placed in a separate file that carries a
	// "Code generated ... DO NOT EDIT." header (a stringer/protobuf-like sibling file).
	GenConsts []string
	Decls     []Decl
	Files     [][]int // decl indices per file (file 0 holds types and providers)
	// ExtraImports are import spec lines for file 0, e.g. `ttemplate "text/template"`.
	ExtraImports []string
	// SignatureOnly: the program exists for the signature / compile gates; the concurrency
	// checks leave it out (a provider result of type context.Context is outside the
	// extractor's model of contexts).
	SignatureOnly bool
	// SeparateRuns: the generator is invoked once per declaration file, in order, instead of
	// once with all files.
	SeparateRuns bool
	// ReplayTypes: emit types that carry the identity of the term that
	// produced them (replay instrumentation only).
	ReplayTypes bool
}

func (p *Program) allProvs() []Prov {
	seen := map[string]bool{}
	var out []Prov
	for _, d := range p.Decls {
		for _, pr := range append(append([]Prov{}, d.Provs...), d.JointWith...) {
			if pr.Kind == KFunc && !pr.External && !seen[pr.Name] {
				seen[pr.Name] = true
				out = append(out, pr)
			}
		}
	}
	return out
}

func zeroExpr(t string) string {
	switch {
	case strings.HasPrefix(t, "*"):
		return "&" + t[1:] + "{}"
	case t == "string" || strings.HasPrefix(t, "V"):
		return t + "(\"v\")"
	case t == "int":
		return "1"
	}
	if t == "context.Context" {
		return "context.Background()"
	}
	if strings.HasPrefix(t, "I") || strings.HasPrefix(t, "func(") || strings.Contains(t, "chan ") {
		return "nil"
	}
	return t + "{}"
}

func provExpr(pr Prov) string {
	var e string
	switch pr.Kind {
	case KFunc:
		e = "kessoku.Provide(" + pr.Name + ")"
	case KLiteral:
		var ps []string
		for i, t := range pr.Params {
			ps = append(ps, fmt.Sprintf("a%d %s", i, t))
		}
		res := strings.Join(pr.Results, ", ")
		var rets []string
		for _, r := range pr.Results {
			rets = append(rets, zeroExpr(r))
		}
		if pr.Err {
			res += ", error"
			rets = append(rets, "nil")
		}
		if len(pr.Results)+b2i(pr.Err) > 1 {
			res = "(" + res + ")"
		}
		e = fmt.Sprintf("kessoku.Provide(func(%s) %s { return %s })", strings.Join(ps, ", "), res, strings.Join(rets, ", "))
	case KValue:
		e = "kessoku.Value(" + pr.ValueOf + ")"
	case KStruct:
		e = "kessoku.Struct[" + pr.Struct + "]()"
	}
	if pr.Bind != "" && pr.BindOutside {
		if pr.Async {
			e = "kessoku.Async(" + e + ")"
		}
		return "kessoku.Bind[" + pr.Bind + "](" + e + ")"
	}
	if pr.Bind != "" {
		e = "kessoku.Bind[" + pr.Bind + "](" + e + ")"
	}
	if pr.Async {
		e = "kessoku.Async(" + e + ")"
	}
	return e
}

func b2i(b bool) int {
	if b {
		return 1
	}
	return 0
}

// FuncSource prints one provider function; body is the statement list.
func FuncSource(pr Prov, body string) string {
	var ps []string
	for i, t := range pr.Params {
		ps = append(ps, fmt.Sprintf("a%d %s", i, t))
	}
	res := strings.Join(pr.Results, ", ")
	if pr.Err {
		if res != "" {
			res += ", "
		}
		if pr.ErrAlias {
			res += "Failure"
		} else {
			res += "error"
		}
	}
	if len(pr.Results)+b2i(pr.Err) > 1 {
		res = "(" + res + ")"
	}
	return fmt.Sprintf("func %s(%s) %s {\n%s}\n", pr.Name, strings.Join(ps, ", "), res, body)
}

func plainBody(pr Prov) string {
	var rets []string
	for _, r := range pr.Results {
		rets = append(rets, zeroExpr(r))
	}
	if pr.Err {
		rets = append(rets, "nil")
	}
	return "\treturn " + strings.Join(rets, ", ") + "\n"
}

// Emit returns file name -> source for the program. bodyOf, if non-nil,
// supplies instrumented provider bodies (replay); extraImports are added to
// the first file.
func (p *Program) Emit(bodyOf func(pr Prov) string, extraImports []string) map[string]string {
	files := map[string]string{}
	var sb strings.Builder
	usesCtx := false
	for _, d := range p.Decls {
		for _, pr := range d.Provs {
			for _, t := range pr.Params {
				if t == "context.Context" {
					usesCtx = true
				}
			}
		}
	}
	fmt.Fprintf(&sb, "package %s\n\n// %s: %s\n\nimport (\n", p.Pkg, p.Family, p.Desc)
	if usesCtx {
		sb.WriteString("\t\"context\"\n")
	}
	for _, im := range extraImports {
		fmt.Fprintf(&sb, "\t%q\n", im)
	}
	for _, im := range p.ExtraImports {
		fmt.Fprintf(&sb, "\t%s\n", im)
	}
	sb.WriteString("\t\"github.com/mazrean/kessoku\"\n)\n\n")
	for _, t := range p.Types {
		if p.ReplayTypes {
			fmt.Fprintf(&sb, "type %s struct{ id string }\n\nfunc (t *%s) VerifID() string {\n\tif t == nil {\n\t\treturn \"nil\"\n\t}\n\treturn t.id\n}\n", t, t)
			continue
		}
		fmt.Fprintf(&sb, "type %s struct{ _ int }\n", t)
	}
	inames := make([]string, 0, len(p.Ifaces))
	for n := range p.Ifaces {
		inames = append(inames, n)
	}
	sort.Strings(inames)
	for _, n := range inames {
		fmt.Fprintf(&sb, "type %s interface{ is%s() }\nfunc (*%s) is%s() {}\n", n, n, p.Ifaces[n], n)
	}
	snames := make([]string, 0, len(p.Structs))
	for n := range p.Structs {
		snames = append(snames, n)
	}
	sort.Strings(snames)
	for _, n := range snames {
		fmt.Fprintf(&sb, "type %s struct {\n", n)
		if p.ReplayTypes {
			sb.WriteString("\tid string\n")
		}
		for _, f := range p.Structs[n] {
			fmt.Fprintf(&sb, "\t%s\n", f)
		}
		sb.WriteString("}\n")
		if p.ReplayTypes {
			fmt.Fprintf(&sb, "func (t *%s) VerifID() string {\n\tif t == nil {\n\t\treturn \"nil\"\n\t}\n\treturn t.id\n}\n", n)
		}
	}
	for _, c := range p.Consts {
		sb.WriteString(c + "\n")
	}
	for _, pr := range p.allProvs() {
		if pr.ErrAlias {
			sb.WriteString("type Failure = error\n")
			break
		}
	}
	sb.WriteString("\n")
	for _, pr := range p.allProvs() {
		body := plainBody(pr)
		if bodyOf != nil {
			body = bodyOf(pr)
		}
		sb.WriteString(FuncSource(pr, body))
		sb.WriteString("\n")
	}
	declSrc := func(d Decl) string {
		var b strings.Builder
		inSet := map[int]int{}
		for si, s := range d.Sets {
			for _, i := range s {
				inSet[i] = si + 1
			}
		}
		setExpr := func(si int) string {
			var es []string
			for _, i := range d.Sets[si] {
				es = append(es, provExpr(d.Provs[i]))
			}
			return "kessoku.Set(" + strings.Join(es, ", ") + ")"
		}
		jointDone := false
		for si := range d.Sets {
			if si < len(d.SetVars) && d.SetVars[si] != "" {
				if len(d.JointWith) > 0 && !jointDone {
					jointDone = true
					var es []string
					for _, pr := range d.JointWith {
						es = append(es, provExpr(pr))
					}
					fmt.Fprintf(&b, "var otherSet, %s = kessoku.Set(%s), %s\n\nvar _ = otherSet\n\n", d.SetVars[si], strings.Join(es, ", "), setExpr(si))
					continue
				}
				fmt.Fprintf(&b, "var %s = %s\n\n", d.SetVars[si], setExpr(si))
			}
		}
		fmt.Fprintf(&b, "var _ = kessoku.Inject[%s](\n\t%q,\n", d.Request, d.Name)
		emitted := map[int]bool{}
		for i, pr := range d.Provs {
			if si := inSet[i]; si > 0 {
				if emitted[si] {
					continue
				}
				emitted[si] = true
				if si-1 < len(d.SetVars) && d.SetVars[si-1] != "" {
					fmt.Fprintf(&b, "\t%s,\n", d.SetVars[si-1])
				} else {
					fmt.Fprintf(&b, "\t%s,\n", setExpr(si-1))
				}
				continue
			}
			fmt.Fprintf(&b, "\t%s,\n", provExpr(pr))
		}
		b.WriteString(")\n\n")
		return b.String()
	}
	fileDecls := p.Files
	if len(fileDecls) == 0 {
		all := make([]int, len(p.Decls))
		for i := range all {
			all[i] = i
		}
		fileDecls = [][]int{all}
	}
	for _, di := range fileDecls[0] {
		sb.WriteString(declSrc(p.Decls[di]))
	}
	files["k.go"] = sb.String()
	if len(p.GenConsts) > 0 {
		files["zz_generated.go"] = "// Code generated by verif-corpus. DO NOT EDIT.\n\npackage " + p.Pkg + "\n\n" + strings.Join(p.GenConsts, "\n") + "\n"
	}
	for fi := 1; fi < len(fileDecls); fi++ {
		var fb strings.Builder
		fmt.Fprintf(&fb, "package %s\n\nimport \"github.com/mazrean/kessoku\"\n\n", p.Pkg)
		for _, di := range fileDecls[fi] {
			fb.WriteString(declSrc(p.Decls[di]))
		}
		files[fmt.Sprintf("k%d.go", fi+1)] = fb.String()
	}
	return files
}

// SourceFiles lists the files that carry declarations (inputs to the CLI).
func (p *Program) SourceFiles() []string {
	if len(p.Files) <= 1 {
		return []string{"k.go"}
	}
	out := []string{"k.go"}
	for fi := 1; fi < len(p.Files); fi++ {
		out = append(out, fmt.Sprintf("k%d.go", fi+1))
	}
	return out
}
