// Package smt drives persistent SMT-LIB2 solver processes (z3 -in, z3-new -in,
// cvc5 --incremental) and parses their answers. Any "(error" line makes the
// query inconclusive; it is never read as sat or unsat.
package smt

import (
	"bufio"
	"fmt"
	"io"
	"os"
	"os/exec"
	"strconv"
	"strings"
	"sync"
	"time"
)

type Verdict int

const (
	Unknown Verdict = iota
	Sat
	Unsat
)

func (v Verdict) String() string {
	switch v {
	case Sat:
		return "sat"
	case Unsat:
		return "unsat"
	}
	return "unknown"
}

// Stats are accumulated per solver process.
type Stats struct {
	Queries  int
	Sat      int
	Unsat    int
	Unknown  int
	Errors   int
	SolverNs int64
}

func (s *Stats) Add(o Stats) {
	s.Queries += o.Queries
	s.Sat += o.Sat
	s.Unsat += o.Unsat
	s.Unknown += o.Unknown
	s.Errors += o.Errors
	s.SolverNs += o.SolverNs
}

type Solver struct {
	Name  string
	cmd   *exec.Cmd
	in    io.WriteCloser
	out   *bufio.Reader
	mu    sync.Mutex
	Stats Stats
	Log   io.Writer // optional transcript
	seq   int
	dead  bool
	// TimeoutMs is the per-check-sat soft timeout handed to the solver.
	TimeoutMs int
	// ResetMode: the assertion stack is kept on our side and every Check
	// replays it after (reset). z3 then uses its full (non-incremental)
	// strategy, which decides the string queries orders of magnitude faster.
	ResetMode bool
	Prelude   []string
	frames    [][]string
	// Portfolio, if non-empty, makes every Check a one-shot race between
	// fresh processes of the listed solvers on the replayed assertion stack;
	// the first definite answer wins, the others are killed. Wins are counted.
	Portfolio   []string
	Wins        map[string]int
	pendingVals []string
	lastVals    map[string]string
	Disagree    int
}

// New starts a solver. kind is "z3", "z3-new" or "cvc5".
func New(kind string, timeoutMs int) (*Solver, error) {
	var cmd *exec.Cmd
	switch kind {
	case "z3", "":
		kind = "z3"
		cmd = exec.Command("z3", "-in", "-smt2")
	case "z3-new":
		cmd = exec.Command("z3-new", "-in", "-smt2")
	case "cvc5":
		cmd = exec.Command("cvc5", "--incremental", "--lang=smt2", "--strings-exp", "--produce-models",
			fmt.Sprintf("--tlimit-per=%d", timeoutMs))
	default:
		return nil, fmt.Errorf("unknown solver %q", kind)
	}
	in, err := cmd.StdinPipe()
	if err != nil {
		return nil, err
	}
	outp, err := cmd.StdoutPipe()
	if err != nil {
		return nil, err
	}
	cmd.Stderr = os.Stderr
	if err := cmd.Start(); err != nil {
		return nil, err
	}
	s := &Solver{Name: kind, cmd: cmd, in: in, out: bufio.NewReaderSize(outp, 1<<20), TimeoutMs: timeoutMs}
	if p := os.Getenv("VERIF_SMTLOG"); p != "" {
		if f, err := os.OpenFile(p, os.O_CREATE|os.O_WRONLY|os.O_APPEND, 0o644); err == nil {
			s.Log = f
		}
	}
	if kind != "cvc5" {
		s.Send(fmt.Sprintf("(set-option :timeout %d)", timeoutMs))
		s.Send("(set-option :model.completion true)")
	} else {
		s.Send("(set-logic ALL)")
	}
	return s, nil
}

func (s *Solver) Close() {
	if s == nil || s.dead {
		return
	}
	s.dead = true
	_, _ = io.WriteString(s.in, "(exit)\n")
	_ = s.in.Close()
	done := make(chan struct{})
	go func() { _ = s.cmd.Wait(); close(done) }()
	select {
	case <-done:
	case <-time.After(2 * time.Second):
		_ = s.cmd.Process.Kill()
	}
}

// Send writes commands that produce no output we need to wait for.
func (s *Solver) Send(text string) {
	if s.ResetMode {
		if len(s.frames) == 0 {
			s.frames = [][]string{nil}
		}
		s.frames[len(s.frames)-1] = append(s.frames[len(s.frames)-1], text)
		return
	}
	s.raw(text)
}

func (s *Solver) raw(text string) {
	if s.Log != nil {
		fmt.Fprintln(s.Log, text)
	}
	_, _ = io.WriteString(s.in, text)
	_, _ = io.WriteString(s.in, "\n")
}

// roundTrip sends text followed by an echo marker and returns everything the
// solver printed before the marker.
func (s *Solver) roundTrip(text string) (string, error) {
	s.seq++
	marker := fmt.Sprintf("@@done%d@@", s.seq)
	s.raw(text)
	s.raw(fmt.Sprintf("(echo \"%s\")", marker))
	var sb strings.Builder
	for {
		line, err := s.out.ReadString('\n')
		if err != nil {
			s.dead = true
			return sb.String(), fmt.Errorf("solver %s died: %v", s.Name, err)
		}
		t := strings.TrimSpace(line)
		if t == marker || t == "\""+marker+"\"" {
			break
		}
		sb.WriteString(line)
	}
	out := sb.String()
	if s.Log != nil {
		fmt.Fprintf(s.Log, "; -> %s\n", strings.ReplaceAll(strings.TrimSpace(out), "\n", "\n; -> "))
	}
	return out, nil
}

func (s *Solver) Push() {
	if s.ResetMode {
		if len(s.frames) == 0 {
			s.frames = [][]string{nil}
		}
		s.frames = append(s.frames, nil)
		return
	}
	s.Send("(push 1)")
}

func (s *Solver) Pop() {
	if s.ResetMode {
		s.frames = s.frames[:len(s.frames)-1]
		return
	}
	s.Send("(pop 1)")
}

// Reset clears the solver state (incremental mode) and restores the options.
func (s *Solver) Reset() {
	s.raw("(reset)")
	if s.Name != "cvc5" {
		s.raw(fmt.Sprintf("(set-option :timeout %d)", s.TimeoutMs))
		s.raw("(set-option :model.completion true)")
	} else {
		s.raw("(set-logic ALL)")
	}
}

func (s *Solver) replay() {
	s.raw("(reset)")
	if s.Name != "cvc5" {
		s.raw(fmt.Sprintf("(set-option :timeout %d)", s.TimeoutMs))
		s.raw("(set-option :model.completion true)")
	} else {
		s.raw("(set-logic ALL)")
	}
	for _, l := range s.Prelude {
		s.raw(l)
	}
	for _, f := range s.frames {
		for _, l := range f {
			s.raw(l)
		}
	}
}

// Check runs (check-sat). An "(error" anywhere in the output since the last
// round trip yields Unknown.
func (s *Solver) Check() Verdict {
	t0 := time.Now()
	if len(s.Portfolio) > 0 {
		v := s.race()
		s.Stats.Queries++
		s.Stats.SolverNs += time.Since(t0).Nanoseconds()
		if s.Log != nil {
			fmt.Fprintf(s.Log, "; portfolio -> %s time=%.3f\n", v, time.Since(t0).Seconds())
		}
		switch v {
		case Sat:
			s.Stats.Sat++
		case Unsat:
			s.Stats.Unsat++
		default:
			s.Stats.Unknown++
		}
		return v
	}
	if s.ResetMode {
		s.replay()
	}
	out, err := s.roundTrip("(check-sat)")
	s.Stats.Queries++
	s.Stats.SolverNs += time.Since(t0).Nanoseconds()
	if s.Log != nil {
		fmt.Fprintf(s.Log, "; time=%.3f\n", time.Since(t0).Seconds())
	}
	if d := time.Since(t0); d > 3*time.Second && os.Getenv("VERIF_DEBUG") != "" {
		fmt.Fprintf(os.Stderr, "smt: slow query %.1fs -> %s\n", d.Seconds(), strings.TrimSpace(out))
	}
	if err != nil || strings.Contains(out, "(error") {
		s.Stats.Errors++
		s.Stats.Unknown++
		if err == nil {
			fmt.Fprintf(os.Stderr, "smt: solver reported: %s\n", strings.TrimSpace(out))
		}
		return Unknown
	}
	last := ""
	for _, l := range strings.Split(out, "\n") {
		if l = strings.TrimSpace(l); l != "" {
			last = l
		}
	}
	switch last {
	case "sat":
		s.Stats.Sat++
		return Sat
	case "unsat":
		s.Stats.Unsat++
		return Unsat
	}
	s.Stats.Unknown++
	return Unknown
}

// CheckAssuming pushes, asserts the given terms, checks and pops. If the
// verdict is Sat and wantVals is non-empty the values are fetched before the pop.
func (s *Solver) CheckAssuming(terms []string, wantVals []string) (Verdict, map[string]string) {
	s.Push()
	for _, t := range terms {
		s.Send("(assert " + t + ")")
	}
	s.pendingVals = wantVals
	v := s.Check()
	s.pendingVals = nil
	var m map[string]string
	if v == Sat && len(wantVals) > 0 {
		m = s.Values(wantVals)
	}
	s.Pop()
	return v, m
}

// CheckAssumingWeakened decides (frames minus the listed trailing assertions)
// ∧ extra. Only supported in reset/portfolio mode, where the stack is ours.
func (s *Solver) CheckAssumingWeakened(drop []string, extra string, wantVals []string) (Verdict, map[string]string) {
	if !s.ResetMode {
		return Unknown, nil
	}
	saved := s.frames
	dropSet := map[string]int{}
	for _, d := range drop {
		dropSet["(assert "+d+")"]++
	}
	var nf [][]string
	for i := len(saved) - 1; i >= 0; i-- {
		var f []string
		for j := len(saved[i]) - 1; j >= 0; j-- {
			l := saved[i][j]
			if dropSet[l] > 0 {
				dropSet[l]--
				continue
			}
			f = append([]string{l}, f...)
		}
		nf = append([][]string{f}, nf...)
	}
	s.frames = nf
	v, m := s.CheckAssuming([]string{extra}, wantVals)
	s.frames = saved
	return v, m
}

// Values returns the model values of the given terms as SMT-LIB text.
func (s *Solver) Values(terms []string) map[string]string {
	res := map[string]string{}
	if len(s.Portfolio) > 0 {
		for _, t := range terms {
			if v, ok := s.lastVals[t]; ok {
				res[t] = v
			}
		}
		return res
	}
	// chunk to keep lines reasonable
	for i := 0; i < len(terms); i += 200 {
		j := i + 200
		if j > len(terms) {
			j = len(terms)
		}
		out, err := s.roundTrip("(get-value (" + strings.Join(terms[i:j], " ") + "))")
		if err != nil || strings.Contains(out, "(error") {
			continue
		}
		sx, err := ParseSexp(out)
		if err != nil || sx == nil {
			continue
		}
		for _, pair := range sx.List {
			if len(pair.List) == 2 {
				res[pair.List[0].String()] = pair.List[1].String()
			}
		}
	}
	return res
}

// ---------------------------------------------------------------------------
// S-expressions

type Sexp struct {
	Atom string
	List []*Sexp
	IsL  bool
}

func (s *Sexp) String() string {
	if !s.IsL {
		return s.Atom
	}
	parts := make([]string, len(s.List))
	for i, c := range s.List {
		parts[i] = c.String()
	}
	return "(" + strings.Join(parts, " ") + ")"
}

func ParseSexp(text string) (*Sexp, error) {
	p := &sexpParser{s: text}
	p.skip()
	if p.i >= len(p.s) {
		return nil, nil
	}
	return p.parse()
}

type sexpParser struct {
	s string
	i int
}

func (p *sexpParser) skip() {
	for p.i < len(p.s) && (p.s[p.i] == ' ' || p.s[p.i] == '\n' || p.s[p.i] == '\t' || p.s[p.i] == '\r') {
		p.i++
	}
}

func (p *sexpParser) parse() (*Sexp, error) {
	p.skip()
	if p.i >= len(p.s) {
		return nil, fmt.Errorf("unexpected end")
	}
	switch c := p.s[p.i]; {
	case c == '(':
		p.i++
		n := &Sexp{IsL: true}
		for {
			p.skip()
			if p.i >= len(p.s) {
				return nil, fmt.Errorf("unclosed paren")
			}
			if p.s[p.i] == ')' {
				p.i++
				return n, nil
			}
			c, err := p.parse()
			if err != nil {
				return nil, err
			}
			n.List = append(n.List, c)
		}
	case c == '"':
		j := p.i + 1
		for j < len(p.s) {
			if p.s[j] == '"' {
				if j+1 < len(p.s) && p.s[j+1] == '"' {
					j += 2
					continue
				}
				break
			}
			j++
		}
		a := p.s[p.i : j+1]
		p.i = j + 1
		return &Sexp{Atom: a}, nil
	case c == '|':
		j := strings.IndexByte(p.s[p.i+1:], '|')
		if j < 0 {
			return nil, fmt.Errorf("unclosed |")
		}
		a := p.s[p.i : p.i+j+2]
		p.i += j + 2
		return &Sexp{Atom: a}, nil
	default:
		j := p.i
		for j < len(p.s) && !strings.ContainsRune(" \n\t\r()", rune(p.s[j])) {
			j++
		}
		a := p.s[p.i:j]
		p.i = j
		return &Sexp{Atom: a}, nil
	}
}

// ---------------------------------------------------------------------------
// Literals

// StrLit renders a Go string as an SMT-LIB 2.6 string literal.
func StrLit(s string) string {
	var sb strings.Builder
	sb.WriteByte('"')
	for i := 0; i < len(s); i++ {
		c := s[i]
		switch {
		case c == '"':
			sb.WriteString("\"\"")
		case c == '\\' || c < 0x20 || c > 0x7e:
			fmt.Fprintf(&sb, "\\u{%x}", c)
		default:
			sb.WriteByte(c)
		}
	}
	sb.WriteByte('"')
	return sb.String()
}

// ParseStrLit turns a model string value back into a Go string (bytes).
func ParseStrLit(lit string) (string, bool) {
	if len(lit) < 2 || lit[0] != '"' || lit[len(lit)-1] != '"' {
		return "", false
	}
	body := lit[1 : len(lit)-1]
	var sb strings.Builder
	for i := 0; i < len(body); i++ {
		c := body[i]
		if c == '"' && i+1 < len(body) && body[i+1] == '"' {
			sb.WriteByte('"')
			i++
			continue
		}
		if c == '\\' && i+1 < len(body) {
			if body[i+1] == 'u' && i+2 < len(body) && body[i+2] == '{' {
				j := strings.IndexByte(body[i:], '}')
				if j > 0 {
					if n, err := strconv.ParseUint(body[i+3:i+j], 16, 32); err == nil {
						sb.WriteRune(rune(n))
						i += j
						continue
					}
				}
			}
			if body[i+1] == 'x' && i+3 < len(body) {
				if n, err := strconv.ParseUint(body[i+2:i+4], 16, 8); err == nil {
					sb.WriteByte(byte(n))
					i += 3
					continue
				}
			}
		}
		sb.WriteByte(c)
	}
	return sb.String(), true
}

func IntLit(n int64) string {
	if n < 0 {
		return fmt.Sprintf("(- %d)", -n)
	}
	return strconv.FormatInt(n, 10)
}

// ParseIntLit parses "5" or "(- 5)".
func ParseIntLit(s string) (int64, bool) {
	s = strings.TrimSpace(s)
	if strings.HasPrefix(s, "(-") {
		s = strings.TrimSpace(strings.TrimSuffix(strings.TrimPrefix(s, "(-"), ")"))
		n, err := strconv.ParseInt(s, 10, 64)
		return -n, err == nil
	}
	n, err := strconv.ParseInt(s, 10, 64)
	return n, err == nil
}

func And(ts ...string) string {
	switch len(ts) {
	case 0:
		return "true"
	case 1:
		return ts[0]
	}
	return "(and " + strings.Join(ts, " ") + ")"
}

func Or(ts ...string) string {
	switch len(ts) {
	case 0:
		return "false"
	case 1:
		return ts[0]
	}
	return "(or " + strings.Join(ts, " ") + ")"
}

func Not(t string) string {
	if t == "true" {
		return "false"
	}
	if t == "false" {
		return "true"
	}
	return "(not " + t + ")"
}

func Implies(a, b string) string { return "(=> " + a + " " + b + ")" }
func Eq(a, b string) string      { return "(= " + a + " " + b + ")" }
func Lt(a, b string) string      { return "(< " + a + " " + b + ")" }
func Ite(c, a, b string) string  { return "(ite " + c + " " + a + " " + b + ")" }

// NewPortfolio returns a solver handle without a persistent process.
func NewPortfolio(kinds []string, timeoutMs int) *Solver {
	s := &Solver{Name: "portfolio(" + strings.Join(kinds, ",") + ")", TimeoutMs: timeoutMs, ResetMode: true, Portfolio: kinds, Wins: map[string]int{}, dead: true}
	if p := os.Getenv("VERIF_SMTLOG"); p != "" {
		if f, err := os.OpenFile(p, os.O_CREATE|os.O_WRONLY|os.O_APPEND, 0o644); err == nil {
			s.Log = f
		}
	}
	return s
}

func (s *Solver) script(kind string) string {
	var sb strings.Builder
	if kind == "cvc5" {
		sb.WriteString("(set-logic ALL)\n")
	} else {
		fmt.Fprintf(&sb, "(set-option :timeout %d)\n(set-option :model.completion true)\n", s.TimeoutMs)
	}
	for _, l := range s.Prelude {
		sb.WriteString(l)
		sb.WriteByte('\n')
	}
	for _, f := range s.frames {
		for _, l := range f {
			sb.WriteString(l)
			sb.WriteByte('\n')
		}
	}
	sb.WriteString("(check-sat)\n")
	for i := 0; i < len(s.pendingVals); i += 100 {
		j := i + 100
		if j > len(s.pendingVals) {
			j = len(s.pendingVals)
		}
		sb.WriteString("(get-value (" + strings.Join(s.pendingVals[i:j], " ") + "))\n")
	}
	return sb.String()
}

type raceResult struct {
	kind string
	v    Verdict
	out  string
}

func (s *Solver) race() Verdict {
	s.lastVals = nil
	results := make(chan raceResult, len(s.Portfolio))
	var cmds []*exec.Cmd
	for _, kind := range s.Portfolio {
		var cmd *exec.Cmd
		switch kind {
		case "z3":
			cmd = exec.Command("z3", "-in", "-smt2")
		case "z3-new":
			cmd = exec.Command("z3-new", "-in", "-smt2")
		case "cvc5":
			cmd = exec.Command("cvc5", "--lang=smt2", "--strings-exp", "--produce-models", "-q", fmt.Sprintf("--tlimit=%d", s.TimeoutMs))
		default:
			continue
		}
		text := s.script(kind)
		if s.Log != nil && kind == s.Portfolio[0] {
			fmt.Fprintln(s.Log, "(reset)")
			fmt.Fprint(s.Log, text)
		}
		cmd.Stdin = strings.NewReader(text)
		cmds = append(cmds, cmd)
		go func(kind string, cmd *exec.Cmd) {
			out, _ := cmd.Output()
			o := string(out)
			first := strings.TrimSpace(o)
			if i := strings.IndexByte(first, '\n'); i >= 0 {
				first = strings.TrimSpace(first[:i])
			}
			v := Unknown
			switch first {
			case "sat":
				v = Sat
			case "unsat":
				v = Unsat
			}
			results <- raceResult{kind, v, o}
		}(kind, cmd)
	}
	verdict := Unknown
	got := 0
	for got < len(cmds) {
		r := <-results
		got++
		if r.v == Unknown {
			continue
		}
		verdict = r.v
		s.Wins[r.kind]++
		if r.v == Sat && len(s.pendingVals) > 0 {
			s.lastVals = map[string]string{}
			rest := r.out[strings.Index(r.out, "sat")+3:]
			for {
				rest = strings.TrimSpace(rest)
				if rest == "" || strings.HasPrefix(rest, "(error") {
					break
				}
				p := &sexpParser{s: rest}
				sx, err := p.parse()
				if err != nil || sx == nil {
					break
				}
				for _, pair := range sx.List {
					if len(pair.List) == 2 {
						s.lastVals[pair.List[0].String()] = pair.List[1].String()
					}
				}
				rest = rest[p.i:]
			}
		}
		break
	}
	for _, c := range cmds {
		if c.Process != nil {
			_ = c.Process.Kill()
		}
	}
	// drain in the background so goroutines finish
	go func(n int) {
		for i := 0; i < n; i++ {
			<-results
		}
	}(len(cmds) - got)
	return verdict
}

// OneShot decides a complete script with a fresh process of the given solver.
func OneShot(kind, text string, timeoutMs int) Verdict {
	var cmd *exec.Cmd
	switch kind {
	case "cvc5":
		cmd = exec.Command("cvc5", "--lang=smt2", "--strings-exp", "-q", fmt.Sprintf("--tlimit=%d", timeoutMs))
		text = "(set-logic ALL)\n" + text
	case "z3-new":
		cmd = exec.Command("z3-new", "-in", "-smt2", fmt.Sprintf("-t:%d", timeoutMs))
	default:
		cmd = exec.Command("z3", "-in", "-smt2", fmt.Sprintf("-t:%d", timeoutMs))
	}
	cmd.Stdin = strings.NewReader(text + "(check-sat)\n")
	out, _ := cmd.Output()
	o := strings.TrimSpace(string(out))
	if strings.Contains(o, "(error") {
		return Unknown
	}
	if i := strings.IndexByte(o, '\n'); i >= 0 {
		o = strings.TrimSpace(o[:i])
	}
	switch o {
	case "sat":
		return Sat
	case "unsat":
		return Unsat
	}
	return Unknown
}
