// Package pipeline builds the generator from the scratch copy of /repo, runs
// it over a corpus of declarations and loads the results as go/types + go/ssa.
package pipeline

import (
	"fmt"
	"go/ast"
	"go/parser"
	"go/token"
	"go/types"
	"os"
	"path/filepath"
	"strings"
	"sync"
	"time"

	"golang.org/x/tools/go/packages"
	"golang.org/x/tools/go/ssa"
	"golang.org/x/tools/go/ssa/ssautil"
	"kverif/internal/corpus"
	"kverif/internal/load"
)

type Item struct {
	Prog    *corpus.Program
	Dir     string
	CLIOut  string
	CLIErr  error
	Elapsed time.Duration
	// filled by LoadItem
	Files  []*ast.File
	Types  *types.Package
	Info   *types.Info
	SSA    *ssa.Package
	Fset   *token.FileSet
	Err    error             // type-check error (compile gate)
	GenSrc map[string]string // generated file name -> text
}

type Pipe struct {
	S         *load.Scratch
	CLI       string
	CorpusDir string
	Items     []*Item
	BuildTime time.Duration
	GenTime   time.Duration
	// PreWrite, if set, runs for each item after its sources are written and before the CLI.
	PreWrite func(it *Item)
}

// New copies /repo, builds the CLI from the copy and prepares the corpus module.
func New(tag string) (*Pipe, error) {
	s, err := load.NewScratch(tag)
	if err != nil {
		return nil, err
	}
	p := &Pipe{S: s, CLI: filepath.Join(s.Dir, "kessoku"), CorpusDir: filepath.Join(s.Dir, "corpus")}
	t0 := time.Now()
	out, err := load.Run(s.Repo, true, 5*time.Minute, nil, "go", "build", "-o", p.CLI, "./cmd/kessoku")
	if err != nil {
		s.Cleanup()
		return nil, fmt.Errorf("build CLI: %v: %s", err, out)
	}
	p.BuildTime = time.Since(t0)
	if err := os.MkdirAll(p.CorpusDir, 0o755); err != nil {
		s.Cleanup()
		return nil, err
	}
	gomod := fmt.Sprintf("module verifcorpus\n\ngo 1.24.0\n\nrequire (\n\tgithub.com/mazrean/kessoku v0.0.0\n\tgolang.org/x/sync v0.19.0\n)\n\nreplace github.com/mazrean/kessoku => %s\n", s.Repo)
	if err := os.WriteFile(filepath.Join(p.CorpusDir, "go.mod"), []byte(gomod), 0o644); err != nil {
		s.Cleanup()
		return nil, err
	}
	sum, _ := os.ReadFile(filepath.Join(s.Repo, "go.sum"))
	_ = os.WriteFile(filepath.Join(p.CorpusDir, "go.sum"), sum, 0o644)
	// helper packages of the corpus module: a package "config" that corpus programs reach only
	// through the signatures of package "extapp" (never imported by the declaration file)
	_ = os.MkdirAll(filepath.Join(p.CorpusDir, "ext", "config"), 0o755)
	_ = os.WriteFile(filepath.Join(p.CorpusDir, "ext", "config", "config.go"), []byte("package config\n\ntype Config struct{ Port int }\n\ntype Box[T any] struct{ V T }\n"), 0o644)
	_ = os.MkdirAll(filepath.Join(p.CorpusDir, "ext", "extapp"), 0o755)
	_ = os.WriteFile(filepath.Join(p.CorpusDir, "ext", "extapp", "app.go"), []byte("package extapp\n\nimport (\n\t\"verifcorpus/ext/config\"\n\t\"verifcorpus/ext/max\"\n)\n\ntype Server struct{ C *config.Config }\n\nfunc NewServer(c *config.Config) *Server { return &Server{C: c} }\n\nfunc LoadConfig() *config.Config { return &config.Config{} }\n\nfunc NewBoxed(b config.Box[*config.Config]) *Server { return &Server{C: b.V} }\n\nfunc LoadLimit() *max.Limit { return &max.Limit{} }\n\nfunc NewLimited(l *max.Limit) *Server { return &Server{} }\n"), 0o644)
	_ = os.MkdirAll(filepath.Join(p.CorpusDir, "ext", "max"), 0o755)
	_ = os.WriteFile(filepath.Join(p.CorpusDir, "ext", "max", "max.go"), []byte("package max\n\ntype Limit struct{ N int }\n"), 0o644)
	seed := "package seed\n\nimport (\n\t_ \"verifcorpus/ext/extapp\"\n\t_ \"bytes\"\n\t_ \"strings\"\n\t_ \"text/template\"\n\t_ \"html/template\"\n\t_ \"context\"\n\t_ \"github.com/mazrean/kessoku\"\n\t_ \"golang.org/x/sync/errgroup\"\n)\n"
	_ = os.MkdirAll(filepath.Join(p.CorpusDir, "seed"), 0o755)
	_ = os.WriteFile(filepath.Join(p.CorpusDir, "seed", "seed.go"), []byte(seed), 0o644)
	return p, nil
}

func (p *Pipe) Close() { p.S.Cleanup() }

// Generate writes every program and runs the CLI on it (workers in parallel).
func (p *Pipe) Generate(progs []*corpus.Program, workers int) {
	t0 := time.Now()
	p.Items = make([]*Item, len(progs))
	for i, pr := range progs {
		pr.Pkg = fmt.Sprintf("p%05d", i)
		it := &Item{Prog: pr, Dir: filepath.Join(p.CorpusDir, pr.Pkg)}
		p.Items[i] = it
		_ = os.MkdirAll(it.Dir, 0o755)
		for name, src := range pr.Emit(nil, nil) {
			_ = os.WriteFile(filepath.Join(it.Dir, name), []byte(src), 0o644)
		}
		if p.PreWrite != nil {
			p.PreWrite(it)
		}
	}
	var wg sync.WaitGroup
	ch := make(chan *Item)
	for w := 0; w < workers; w++ {
		wg.Add(1)
		go func() {
			defer wg.Done()
			for it := range ch {
				p.RunCLI(it)
			}
		}()
	}
	for _, it := range p.Items {
		ch <- it
	}
	close(ch)
	wg.Wait()
	p.GenTime = time.Since(t0)
}

// RunCLI runs the generator on the item's declaration files.
func (p *Pipe) RunCLI(it *Item) { p.RunCLIEnv(it, nil) }

// RunCLIEnv is RunCLI with extra environment variables.
func (p *Pipe) RunCLIEnv(it *Item, env []string) { p.RunCLIHow(it, env, "") }

// RunCLIHow runs the generator in another way on the same input: how = "abs" (absolute file
// arguments, working directory = the package directory), "reversed" (file arguments in
// reverse order), "dot" (working directory = the package directory, bare file names).
func (p *Pipe) RunCLIHow(it *Item, env []string, how string) {
	t0 := time.Now()
	args := []string{}
	dir := p.CorpusDir
	for _, f := range it.Prog.SourceFiles() {
		switch how {
		case "abs":
			args = append(args, filepath.Join(p.CorpusDir, it.Prog.Pkg, f))
			dir = it.Dir
		case "dot":
			args = append(args, f)
			dir = it.Dir
		default:
			args = append(args, filepath.Join(it.Prog.Pkg, f))
		}
	}
	if how == "reversed" {
		for a, b := 0, len(args)-1; a < b; a, b = a+1, b-1 {
			args[a], args[b] = args[b], args[a]
		}
	}
	var out []byte
	var err error
	switch {
	case how == "separate" || (how == "" && it.Prog.SeparateRuns):
		// one invocation per declaration file, in order (what //go:generate kessoku $GOFILE does)
		for _, a := range args {
			o, e := load.Run(dir, false, 2*time.Minute, env, p.CLI, a)
			out = append(out, o...)
			if e != nil && err == nil {
				err = e
			}
		}
	case strings.HasPrefix(how, "loglevel-"):
		out, err = load.Run(dir, false, 2*time.Minute, env, p.CLI, append([]string{"-l", strings.TrimPrefix(how, "loglevel-")}, args...)...)
	case how == "last-alone":
		out, err = load.Run(dir, false, 2*time.Minute, env, p.CLI, args[len(args)-1])
	default:
		out, err = load.Run(dir, false, 2*time.Minute, env, p.CLI, args...)
	}
	it.CLIOut, it.CLIErr = string(out), err
	it.Elapsed = time.Since(t0)
	it.GenSrc = map[string]string{}
	for _, f := range it.Prog.SourceFiles() {
		g := strings.TrimSuffix(f, ".go") + "_band.go"
		if data, err := os.ReadFile(filepath.Join(it.Dir, g)); err == nil {
			it.GenSrc[g] = string(data)
		}
	}
}

// Loader owns one ssa.Program with the fixed dependencies; corpus packages
// are type-checked against it and added one by one. Not safe for concurrent use;
// use one Loader per worker.
type Loader struct {
	Fset *token.FileSet
	Prog *ssa.Program
	imp  map[string]*types.Package
	Deps map[string]*ssa.Package
}

func (p *Pipe) NewLoader() (*Loader, error) {
	cfg := &packages.Config{Mode: packages.LoadAllSyntax, Dir: p.CorpusDir, Env: load.Env(false)}
	pkgs, err := packages.Load(cfg, "./seed")
	if err != nil {
		return nil, err
	}
	if packages.PrintErrors(pkgs) > 0 {
		return nil, fmt.Errorf("seed package has errors")
	}
	prog, _ := ssautil.AllPackages(pkgs, ssa.InstantiateGenerics)
	prog.Build()
	l := &Loader{Fset: pkgs[0].Fset, Prog: prog, imp: map[string]*types.Package{}, Deps: map[string]*ssa.Package{}}
	packages.Visit(pkgs, nil, func(pk *packages.Package) {
		if pk.Types != nil {
			l.imp[pk.PkgPath] = pk.Types
		}
	})
	for _, sp := range prog.AllPackages() {
		l.Deps[sp.Pkg.Path()] = sp
	}
	return l, nil
}

type mapImporter map[string]*types.Package

func (m mapImporter) Import(path string) (*types.Package, error) {
	if p, ok := m[path]; ok {
		return p, nil
	}
	return nil, fmt.Errorf("package %q not loaded", path)
}

// LoadItem parses and type-checks the item's package (sources + generated
// files) and builds its SSA. A type error is recorded in it.Err (compile gate).
func (l *Loader) LoadItem(it *Item) {
	ents, err := os.ReadDir(it.Dir)
	if err != nil {
		it.Err = err
		return
	}
	var files []*ast.File
	for _, e := range ents {
		if !strings.HasSuffix(e.Name(), ".go") || strings.HasSuffix(e.Name(), "_test.go") {
			continue
		}
		f, err := parser.ParseFile(l.Fset, filepath.Join(it.Dir, e.Name()), nil, parser.SkipObjectResolution)
		if err != nil {
			it.Err = err
			return
		}
		files = append(files, f)
	}
	info := &types.Info{
		Types:        map[ast.Expr]types.TypeAndValue{},
		Defs:         map[*ast.Ident]types.Object{},
		Uses:         map[*ast.Ident]types.Object{},
		Implicits:    map[ast.Node]types.Object{},
		Instances:    map[*ast.Ident]types.Instance{},
		Scopes:       map[ast.Node]*types.Scope{},
		Selections:   map[*ast.SelectorExpr]*types.Selection{},
		FileVersions: map[*ast.File]string{},
	}
	var errs []string
	conf := types.Config{Importer: mapImporter(l.imp), GoVersion: "go1.24", Error: func(err error) { errs = append(errs, err.Error()) }}
	tpkg, _ := conf.Check("verifcorpus/"+it.Prog.Pkg, l.Fset, files, info)
	it.Files, it.Types, it.Info, it.Fset = files, tpkg, info, l.Fset
	if len(errs) > 0 {
		if len(errs) > 5 {
			errs = errs[:5]
		}
		it.Err = fmt.Errorf("%s", strings.Join(errs, "; "))
		return
	}
	sp := l.Prog.CreatePackage(tpkg, files, info, false)
	sp.Build()
	it.SSA = sp
}
