package pipeline

import (
	"fmt"
	"go/ast"
	"go/build/constraint"
	"go/parser"
	"go/token"
	"go/types"
	"os"
	"path/filepath"
	"strings"
	"sync"
	"time"

	"golang.org/x/tools/go/packages"
	"golang.org/x/tools/go/ssa"
	"golang.org/x/tools/go/ssa/ssautil"
	"kverif/internal/load"
	"kverif/internal/wirecorp"
)

// WireItem is one wire configuration pushed through both tool chains.
type WireItem struct {
	Cfg *wirecorp.Config
	// A: google/wire's output
	DirA    string
	WireOut string
	WireErr error
	WireGen string
	// B: kessoku migrate + kessoku generate
	DirB        string
	MigrateOut  string
	MigrateErr  error
	Migrated    string // kessoku.go
	Migrated3   string // output of a run into a path holding a longer stale file
	ThirdRun    bool
	Migrated2   string // second run
	GenOut      string
	GenErr      error
	Band        string
	OutputExist bool
}

type WirePipe struct {
	S      *load.Scratch
	CLI    string
	Wire   string
	Dir    string // module root
	Items  []*WireItem
	Timing map[string]float64
}

// NewWire builds the kessoku CLI from the scratch copy and google/wire's CLI
// from the module cache, and prepares the module that holds the configurations.
func NewWire(tag string) (*WirePipe, error) {
	s, err := load.NewScratch(tag)
	if err != nil {
		return nil, err
	}
	p := &WirePipe{S: s, CLI: filepath.Join(s.Dir, "kessoku"), Wire: filepath.Join(s.Dir, "wire"), Dir: filepath.Join(s.Dir, "wiremod"), Timing: map[string]float64{}}
	t0 := time.Now()
	if out, err := load.Run(s.Repo, true, 5*time.Minute, nil, "go", "build", "-o", p.CLI, "./cmd/kessoku"); err != nil {
		s.Cleanup()
		return nil, fmt.Errorf("build CLI: %v: %s", err, out)
	}
	_ = os.MkdirAll(p.Dir, 0o755)
	gomod := fmt.Sprintf("module verifwire\n\ngo 1.24.0\n\nrequire (\n\tgithub.com/google/wire v0.7.0\n\tgithub.com/mazrean/kessoku v0.0.0\n\tgolang.org/x/sync v0.19.0\n\tgolang.org/x/tools v0.42.0\n)\n\nreplace github.com/mazrean/kessoku => %s\n", s.Repo)
	_ = os.WriteFile(filepath.Join(p.Dir, "go.mod"), []byte(gomod), 0o644)
	sum, _ := os.ReadFile(filepath.Join(s.Repo, "go.sum"))
	_ = os.WriteFile(filepath.Join(p.Dir, "go.sum"), sum, 0o644)
	_ = os.MkdirAll(filepath.Join(p.Dir, "tools"), 0o755)
	_ = os.WriteFile(filepath.Join(p.Dir, "tools", "tools.go"), []byte("//go:build tools\n\npackage tools\n\nimport _ \"github.com/google/wire/cmd/wire\"\n"), 0o644)
	_ = os.MkdirAll(filepath.Join(p.Dir, "seed"), 0o755)
	_ = os.WriteFile(filepath.Join(p.Dir, "seed", "seed.go"), []byte("package seed\n\nimport (\n\t_ \"bytes\"\n\t_ \"strings\"\n\t_ \"net/netip\"\n\t_ \"time\"\n\t_ \"context\"\n\t_ \"errors\"\n\t_ \"fmt\"\n\t_ \"github.com/google/wire\"\n\t_ \"github.com/mazrean/kessoku\"\n\t_ \"golang.org/x/sync/errgroup\"\n)\n"), 0o644)
	if out, err := load.Run(p.Dir, false, 5*time.Minute, nil, "go", "build", "-o", p.Wire, "github.com/google/wire/cmd/wire"); err != nil {
		s.Cleanup()
		return nil, fmt.Errorf("build wire: %v: %s", err, out)
	}
	p.Timing["build_s"] = time.Since(t0).Seconds()
	return p, nil
}

func (p *WirePipe) Close() { p.S.Cleanup() }

// writeFiles writes the configuration; "{{PKG}}" in a source stands for the
// import path of the configuration's root package.
func writeFiles(dir string, files map[string]string) {
	_ = os.MkdirAll(dir, 0o755)
	pkgPath := "verifwire/" + filepath.Base(dir)
	for n, src := range files {
		full := filepath.Join(dir, n)
		_ = os.MkdirAll(filepath.Dir(full), 0o755)
		_ = os.WriteFile(full, []byte(strings.ReplaceAll(src, "{{PKG}}", pkgPath)), 0o644)
	}
}

// Run pushes every configuration through wire and through migrate+generate.
func (p *WirePipe) Run(cfgs []*wirecorp.Config, workers int, withWire bool) {
	t0 := time.Now()
	p.Items = make([]*WireItem, len(cfgs))
	var wg sync.WaitGroup
	ch := make(chan int)
	for w := 0; w < workers; w++ {
		wg.Add(1)
		go func() {
			defer wg.Done()
			for i := range ch {
				c := cfgs[i]
				it := &WireItem{Cfg: c, DirA: filepath.Join(p.Dir, "a_"+c.Name), DirB: filepath.Join(p.Dir, "b_"+c.Name)}
				p.Items[i] = it
				writeFiles(it.DirA, c.Files)
				writeFiles(it.DirB, c.Files)
				if withWire && c.Invalid == "" {
					out, err := load.Run(p.Dir, false, 3*time.Minute, nil, p.Wire, "gen", "./a_"+c.Name)
					it.WireOut, it.WireErr = string(out), err
					if data, err := os.ReadFile(filepath.Join(it.DirA, "wire_gen.go")); err == nil {
						it.WireGen = string(data)
					}
				}
				outPath := filepath.Join(it.DirB, "kessoku.go")
				pats := []string{"./b_" + c.Name}
				if len(c.Patterns) > 0 {
					pats = nil
					for _, pt := range c.Patterns {
						pats = append(pats, "./"+filepath.Join("b_"+c.Name, pt))
					}
				}
				out, err := load.Run(p.Dir, false, 3*time.Minute, nil, p.CLI, append([]string{"migrate", "-o", outPath}, pats...)...)
				it.MigrateOut, it.MigrateErr = string(out), err
				data, rerr := os.ReadFile(outPath)
				it.OutputExist = rerr == nil
				if rerr != nil {
					continue
				}
				it.Migrated = string(data)
				// second run into another file: must be byte-identical
				out2 := filepath.Join(p.S.Dir, "second_"+c.Name+".go")
				_ = os.Rename(outPath, out2)
				// a run (same input: the first output is moved away) into a path outside the package that
				// already holds a longer, stale file
				out3 := filepath.Join(p.S.Dir, "third_"+c.Name+".go")
				_ = os.WriteFile(out3, []byte(it.Migrated+"\n// stale tail of an older, longer output\nvar verifStaleLeftover = 1\n"), 0o644)
				if _, err := load.Run(p.Dir, false, 3*time.Minute, nil, p.CLI, "migrate", "-o", out3, "./b_"+c.Name); err == nil {
					if d3, err := os.ReadFile(out3); err == nil {
						it.Migrated3, it.ThirdRun = string(d3), true
					}
				}
				if _, err := load.Run(p.Dir, false, 3*time.Minute, nil, p.CLI, "migrate", "-o", outPath, "./b_"+c.Name); err == nil {
					if d2, err := os.ReadFile(outPath); err == nil {
						it.Migrated2 = string(d2)
					}
				}
				// set the wire files aside, then generate
				for n, src := range c.Files {
					if wirecorp.IsWireFile(src) {
						_ = os.Remove(filepath.Join(it.DirB, n))
					}
				}
				if c.Invalid == "" {
					out, err := load.Run(p.Dir, false, 3*time.Minute, nil, p.CLI, filepath.Join("b_"+c.Name, "kessoku.go"))
					it.GenOut, it.GenErr = string(out), err
					if data, err := os.ReadFile(filepath.Join(it.DirB, "kessoku_band.go")); err == nil {
						it.Band = string(data)
					}
				}
			}
		}()
	}
	for i := range cfgs {
		ch <- i
	}
	close(ch)
	wg.Wait()
	p.Timing["run_s"] = time.Since(t0).Seconds()
}

// NewLoader loads the fixed dependencies of the wire module.
func (p *WirePipe) NewLoader() (*Loader, error) {
	cfg := &packages.Config{Mode: packages.LoadAllSyntax, Dir: p.Dir, Env: load.Env(false)}
	pkgs, err := packages.Load(cfg, "./seed")
	if err != nil {
		return nil, err
	}
	if packages.PrintErrors(pkgs) > 0 {
		return nil, fmt.Errorf("seed package has errors")
	}
	prog, _ := ssautil.AllPackages(pkgs, ssa.InstantiateGenerics)
	prog.Build()
	l := &Loader{Fset: pkgs[0].Fset, Prog: prog, imp: map[string]*types.Package{}, Deps: map[string]*ssa.Package{}}
	packages.Visit(pkgs, nil, func(pk *packages.Package) {
		if pk.Types != nil {
			l.imp[pk.PkgPath] = pk.Types
		}
	})
	return l, nil
}

// LoadedDir is a type-checked directory.
type LoadedDir struct {
	Files []*ast.File
	Types *types.Package
	Info  *types.Info
	SSA   *ssa.Package
	Err   error
}

// LoadDir parses the files of dir that are active without build tags,
// type-checks them and, if they are error-free, builds SSA.
func (l *Loader) LoadDir(dir, pkgPath string, buildSSA bool) *LoadedDir {
	ld := &LoadedDir{}
	ents, err := os.ReadDir(dir)
	if err != nil {
		ld.Err = err
		return ld
	}
	// sub-packages first, so that the root can import them
	_ = filepath.Walk(dir, func(p string, info os.FileInfo, err error) error {
		if err != nil || !info.IsDir() || p == dir {
			return nil
		}
		rel, _ := filepath.Rel(dir, p)
		sub := pkgPath + "/" + filepath.ToSlash(rel)
		if _, done := l.imp[sub]; done {
			return nil
		}
		if gos, _ := filepath.Glob(filepath.Join(p, "*.go")); len(gos) == 0 {
			return nil
		}
		// leaves before parents: recurse, then register
		r := l.loadFlat(p, sub, buildSSA)
		if r.Err == nil && r.Types != nil {
			l.imp[sub] = r.Types
		}
		return nil
	})
	return l.loadFlatInto(ld, ents, dir, pkgPath, buildSSA)
}

func (l *Loader) loadFlat(dir, pkgPath string, buildSSA bool) *LoadedDir {
	ld := &LoadedDir{}
	ents, err := os.ReadDir(dir)
	if err != nil {
		ld.Err = err
		return ld
	}
	return l.loadFlatInto(ld, ents, dir, pkgPath, buildSSA)
}

func (l *Loader) loadFlatInto(ld *LoadedDir, ents []os.DirEntry, dir, pkgPath string, buildSSA bool) *LoadedDir {
	for _, e := range ents {
		if e.IsDir() {
			continue
		}
		if !strings.HasSuffix(e.Name(), ".go") || strings.HasSuffix(e.Name(), "_test.go") {
			continue
		}
		path := filepath.Join(dir, e.Name())
		data, err := os.ReadFile(path)
		if err != nil {
			ld.Err = err
			return ld
		}
		if !activeWithoutTags(string(data)) {
			continue
		}
		f, err := parser.ParseFile(l.Fset, path, data, parser.SkipObjectResolution|parser.ParseComments)
		if err != nil {
			ld.Err = err
			return ld
		}
		ld.Files = append(ld.Files, f)
	}
	info := &types.Info{
		Types: map[ast.Expr]types.TypeAndValue{}, Defs: map[*ast.Ident]types.Object{}, Uses: map[*ast.Ident]types.Object{},
		Implicits: map[ast.Node]types.Object{}, Instances: map[*ast.Ident]types.Instance{}, Scopes: map[ast.Node]*types.Scope{},
		Selections: map[*ast.SelectorExpr]*types.Selection{}, FileVersions: map[*ast.File]string{},
	}
	var errs []string
	conf := types.Config{Importer: mapImporter(l.imp), GoVersion: "go1.24", Error: func(err error) { errs = append(errs, err.Error()) }}
	tpkg, _ := conf.Check(pkgPath, l.Fset, ld.Files, info)
	ld.Types, ld.Info = tpkg, info
	if len(errs) > 0 {
		if len(errs) > 5 {
			errs = errs[:5]
		}
		ld.Err = fmt.Errorf("%s", strings.Join(errs, "; "))
		return ld
	}
	if buildSSA {
		sp := l.Prog.CreatePackage(tpkg, ld.Files, info, false)
		sp.Build()
		ld.SSA = sp
	}
	return ld
}

func activeWithoutTags(src string) bool {
	for _, line := range strings.Split(src, "\n") {
		t := strings.TrimSpace(line)
		if strings.HasPrefix(t, "package ") {
			break
		}
		if constraint.IsGoBuild(t) {
			x, err := constraint.Parse(t)
			if err != nil {
				return true
			}
			return x.Eval(func(tag string) bool {
				return tag == "linux" || tag == "amd64" || tag == "gc" || strings.HasPrefix(tag, "go1.")
			})
		}
	}
	return true
}

var _ = token.NoPos
