// Package wirecorp enumerates google/wire configurations in the subset the
// migrator supports (C13/C14): provider DAGs, NewSet nesting and references,
// Bind, Value, InterfaceValue, Struct, FieldsOf, Build with and without error,
// single and multi file, plus invalid inputs the migrator must refuse.
package wirecorp

import (
	"fmt"
	"os"
	"path/filepath"
	"sort"
	"strings"
)

type Config struct {
	Name      string
	Family    string
	Desc      string
	Pkg       string            // Go package name
	Files     map[string]string // all sources; wire files are those importing github.com/google/wire
	Injectors []string
	Invalid   string // non-empty: the migrator must refuse (kind of defect)
	// Patterns, if set, are the package patterns handed to migrate, relative to the
	// configuration's directory (default: the directory itself).
	Patterns []string
}

const wireHdr = "//go:build wireinject\n\npackage cfg\n\nimport \"github.com/google/wire\"\n\n"

func dagConfigs(maxN int) []*Config {
	type shape struct {
		deps [][]int
	}
	shapes := []shape{
		{[][]int{{}}},
		{[][]int{{1}, {}}},
		{[][]int{{1, 2}, {}, {}}},
		{[][]int{{1}, {2}, {}}},
		{[][]int{{1, 2}, {2}, {}}},
		{[][]int{{1, 2}, {3}, {3}, {}}},
		{[][]int{{1, 2, 3}, {3}, {}, {}}},
	}
	var out []*Config
	for si, sh := range shapes {
		n := len(sh.deps)
		if n > maxN {
			continue
		}
		for errs := 0; errs < 1<<uint(n); errs++ {
			if bitsSet(errs) > 2 {
				continue
			}
			for _, withArg := range []bool{false, true} {
				var tb, wb strings.Builder
				tb.WriteString("package cfg\n\n")
				for i := 0; i < n; i++ {
					fmt.Fprintf(&tb, "type T%d struct{ _ int }\n", i)
				}
				if withArg {
					tb.WriteString("type A0 struct{ _ int }\n")
				}
				tb.WriteString("\n")
				var provs []string
				for i := 0; i < n; i++ {
					var ps []string
					for k, j := range sh.deps[i] {
						ps = append(ps, fmt.Sprintf("a%d *T%d", k, j))
					}
					if withArg && i == n-1 {
						ps = append(ps, "arg *A0")
					}
					if errs&(1<<uint(i)) != 0 {
						fmt.Fprintf(&tb, "func NewT%d(%s) (*T%d, error) { return &T%d{}, nil }\n", i, strings.Join(ps, ", "), i, i)
					} else {
						fmt.Fprintf(&tb, "func NewT%d(%s) *T%d { return &T%d{} }\n", i, strings.Join(ps, ", "), i, i)
					}
					provs = append(provs, fmt.Sprintf("NewT%d", i))
				}
				wb.WriteString(wireHdr)
				args := ""
				if withArg {
					args = "arg *A0"
				}
				if errs != 0 {
					fmt.Fprintf(&wb, "func InitT0(%s) (*T0, error) {\n\twire.Build(%s)\n\treturn nil, nil\n}\n", args, strings.Join(provs, ", "))
				} else {
					fmt.Fprintf(&wb, "func InitT0(%s) *T0 {\n\twire.Build(%s)\n\treturn nil\n}\n", args, strings.Join(provs, ", "))
				}
				out = append(out, &Config{Family: "W1", Desc: fmt.Sprintf("dag shape=%d err=%0*b arg=%v", si, n, errs, withArg), Pkg: "cfg",
					Files: map[string]string{"types.go": tb.String(), "wire.go": wb.String()}, Injectors: []string{"InitT0"}})
			}
		}
	}
	return out
}

func bitsSet(x int) int {
	c := 0
	for ; x != 0; x &= x - 1 {
		c++
	}
	return c
}

const featTypes = `package cfg

type Config struct {
	DSN  string
	Name string
	Port int
}

type Logger struct{ _ int }
type DB struct{ _ int }
type Cache struct{ _ int }
type Repo interface{ Get() string }
type PG struct{ _ int }

func (p *PG) Get() string { return "pg" }

var pg = &PG{}

type Service struct {
	Log *Logger
	DB  *DB
	C   *Cache
}
type App struct{ _ int }

func NewConfig() *Config                 { return &Config{} }
func NewLogger() *Logger                 { return &Logger{} }
func NewDB(dsn string) (*DB, error)      { return &DB{}, nil }
func NewCache(l *Logger) *Cache          { return &Cache{} }
func NewPG(db *DB) *PG                   { return &PG{} }
func ProvidePG(db *DB, l *Logger) *PG    { return &PG{} }
func NewApp(r Repo, l *Logger) *App      { return &App{} }
func NewAppS(s *Service) *App            { return &App{} }
func NewAppN(name string, l *Logger) *App { return &App{} }
func NewAppNP(name string, port int, l *Logger) *App { return &App{} }
func NewAppBoth(p *PG, r Repo, l *Logger) *App   { return &App{} }
func NewAppBoth2(r Repo, p *PG, l *Logger) *App  { return &App{} }
`

func feature(name, desc, wire string, injectors ...string) *Config {
	return &Config{Family: "W2", Desc: desc, Pkg: "cfg", Name: name,
		Files: map[string]string{"types.go": featTypes, "wire.go": wireHdr + wire}, Injectors: injectors}
}

func featureConfigs() []*Config {
	var out []*Config
	out = append(out, feature("sets", "NewSet nesting and set references", `
var BaseSet = wire.NewSet(NewLogger, NewCache)
var DataSet = wire.NewSet(BaseSet, NewDB, NewPG, wire.Bind(new(Repo), new(*PG)))

func InitApp(dsn string) (*App, error) {
	wire.Build(DataSet, NewApp)
	return nil, nil
}
`, "InitApp"))
	out = append(out, feature("bind", "Bind with the constructor in the same set", `
var RepoSet = wire.NewSet(NewPG, wire.Bind(new(Repo), new(*PG)))

func InitApp(dsn string) (*App, error) {
	wire.Build(RepoSet, NewDB, NewLogger, NewApp)
	return nil, nil
}
`, "InitApp"))
	out = append(out, feature("bind-provide", "Bind whose provider is not named New<Type>", `
func InitApp(dsn string) (*App, error) {
	wire.Build(ProvidePG, wire.Bind(new(Repo), new(*PG)), NewDB, NewLogger, NewApp)
	return nil, nil
}
`, "InitApp"))
	out = append(out, feature("bind-first-provide", "Bind listed before its provider, provider not named New<Type>", `
func InitApp(dsn string) (*App, error) {
	wire.Build(wire.Bind(new(Repo), new(*PG)), NewDB, NewLogger, ProvidePG, NewApp)
	return nil, nil
}
`, "InitApp"))
	out = append(out, feature("bind-first-set", "Bind listed before its provider inside a set", `
var RepoSet = wire.NewSet(wire.Bind(new(Repo), new(*PG)), ProvidePG)

func InitApp(dsn string) (*App, error) {
	wire.Build(NewLogger, RepoSet, NewDB, NewApp)
	return nil, nil
}
`, "InitApp"))
	out = append(out, feature("bind-first-new", "Bind listed before its New<Type> provider", `
func InitApp(dsn string) (*App, error) {
	wire.Build(wire.Bind(new(Repo), new(*PG)), NewPG, NewDB, NewLogger, NewApp)
	return nil, nil
}
`, "InitApp"))
	// an injector whose result type is the only reference to an external package
	out = append(out, &Config{Family: "W2", Desc: "injector result type is the only reference to an external package", Pkg: "cfg", Name: "result-external",
		Injectors: []string{"InitBuilder"},
		Files: map[string]string{
			"types.go": strings.Replace(featTypes, "package cfg\n", "package cfg\n\nimport \"strings\"\n", 1) + "\nfunc NewBuilder(l *Logger) (*strings.Builder, error) { return &strings.Builder{}, nil }\n",
			"wire.go":  "//go:build wireinject\n\npackage cfg\n\nimport (\n\t\"strings\"\n\n\t\"github.com/google/wire\"\n)\n\nfunc InitBuilder() (*strings.Builder, error) {\n\twire.Build(NewLogger, NewBuilder)\n\treturn nil, nil\n}\n",
		}})
	out = append(out, feature("bind-both", "bound implementation needed as concrete type and through the interface, concrete first", `
func InitApp(dsn string) (*App, error) {
	wire.Build(NewPG, wire.Bind(new(Repo), new(*PG)), NewDB, NewLogger, NewAppBoth)
	return nil, nil
}

func InitApp2(dsn string) (*App, error) {
	wire.Build(NewPG, wire.Bind(new(Repo), new(*PG)), NewDB, NewLogger, NewAppBoth2)
	return nil, nil
}
`, "InitApp", "InitApp2"))
	// one constructor in two element lists, only the first of which binds it (the lists live
	// in files that are transformed in that order)
	out = append(out, &Config{Family: "W2", Desc: "constructor bound in one list and plain in a later one, two files", Pkg: "cfg", Name: "bind-then-plain",
		Injectors: []string{"InitApp", "InitPG"},
		Files: map[string]string{
			"types.go":  featTypes,
			"a_wire.go": wireHdr + "var RepoSet = wire.NewSet(NewPG, wire.Bind(new(Repo), new(*PG)))\n\nfunc InitApp(dsn string) (*App, error) {\n\twire.Build(RepoSet, NewDB, NewLogger, NewApp)\n\treturn nil, nil\n}\n",
			"b_wire.go": wireHdr + "func InitPG(dsn string) (*PG, error) {\n\twire.Build(NewPG, NewDB)\n\treturn nil, nil\n}\n",
		}})
	out = append(out, feature("value", "Value of a basic type", `
func InitApp() *App {
	wire.Build(wire.Value("svc"), NewLogger, NewAppN)
	return nil
}
`, "InitApp"))
	out = append(out, feature("struct-all", "Struct with all fields", `
func InitApp(dsn string) (*App, error) {
	wire.Build(NewLogger, NewDB, NewCache, wire.Struct(new(Service), "*"), NewAppS)
	return nil, nil
}
`, "InitApp"))
	out = append(out, feature("struct-fields", "Struct with selected fields (non-prefix subset)", `
func InitApp() *App {
	wire.Build(NewLogger, NewCache, wire.Struct(new(Service), "C", "Log"), NewAppS)
	return nil
}
`, "InitApp"))
	out = append(out, feature("struct-twice", "two injectors using different field subsets of one struct", `
func InitApp() *App {
	wire.Build(NewLogger, NewCache, wire.Struct(new(Service), "C"), NewAppS)
	return nil
}

func InitApp2(dsn string) (*App, error) {
	wire.Build(NewLogger, NewDB, wire.Struct(new(Service), "Log", "DB"), NewAppS)
	return nil, nil
}
`, "InitApp", "InitApp2"))
	out = append(out, feature("fieldsof", "FieldsOf feeding a provider", `
func InitDB() (*DB, error) {
	wire.Build(NewConfig, wire.FieldsOf(new(*Config), "DSN"), NewDB)
	return nil, nil
}
`, "InitDB"))
	out = append(out, feature("fieldsof-struct", "Struct then FieldsOf on the same struct type", `
func InitApp() *App {
	wire.Build(NewLogger, NewCache, wire.Struct(new(Service), "C", "Log"), NewAppS)
	return nil
}

func InitCache() *Cache {
	wire.Build(NewLogger, NewCache, wire.Struct(new(Service), "Log", "C"), wire.FieldsOf(new(*Service), "C"))
	return nil
}
`, "InitApp", "InitCache"))
	out = append(out, feature("fieldsof-nested", "FieldsOf of one struct at the list's own level and in a later inline nested set", `
func InitApp() *App {
	wire.Build(NewConfig, wire.FieldsOf(new(*Config), "Name"), wire.NewSet(wire.FieldsOf(new(*Config), "Port"), NewLogger), NewAppNP)
	return nil
}

func InitApp2() *App {
	wire.Build(NewConfig, wire.NewSet(wire.FieldsOf(new(*Config), "Port"), NewLogger), wire.FieldsOf(new(*Config), "Name"), NewAppNP)
	return nil
}
`, "InitApp", "InitApp2"))
	out = append(out, feature("interface-value", "InterfaceValue", `
func InitApp() *App {
	wire.Build(wire.InterfaceValue(new(Repo), pg), NewLogger, NewApp)
	return nil
}
`, "InitApp"))
	// external packages sharing a name, one imported under an alias, a Bind into each
	ext := &Config{Family: "W2", Desc: "same-named external packages, aliased import, Bind into each", Pkg: "cfg", Injectors: []string{"InitApp"}, Files: map[string]string{
		"mem/store/store.go": "package store\n\ntype Mem struct{ _ int }\n\nfunc (*Mem) Name() string { return \"mem\" }\nfunc NewMem() *Mem { return &Mem{} }\n",
		"db/store/store.go":  "package store\n\ntype SQL struct{ _ int }\n\nfunc (*SQL) Name() string { return \"sql\" }\nfunc NewSQL() *SQL { return &SQL{} }\n",
		"types.go":           "package cfg\n\ntype Cache interface{ Name() string }\ntype Store interface{ Name() string }\ntype Q struct{ _ int }\ntype App struct{ _ int }\n\nfunc NewQ(c Cache) *Q { return &Q{} }\nfunc NewApp(q *Q, s Store) *App { return &App{} }\n",
		"wire.go":            "//go:build wireinject\n\npackage cfg\n\nimport (\n\t\"github.com/google/wire\"\n\tdbstore \"{{PKG}}/db/store\"\n\t\"{{PKG}}/mem/store\"\n)\n\nvar CacheSet = wire.NewSet(store.NewMem, wire.Bind(new(Cache), new(*store.Mem)))\nvar StoreSet = wire.NewSet(dbstore.NewSQL, wire.Bind(new(Store), new(*dbstore.SQL)))\n\nfunc InitApp() *App {\n\twire.Build(CacheSet, StoreSet, NewQ, NewApp)\n\treturn nil\n}\n",
	}}
	out = append(out, ext)
	ext2 := &Config{Family: "W2", Desc: "same-named external packages in two wire files", Pkg: "cfg", Injectors: []string{"InitApp"}, Files: map[string]string{
		"mem/store/store.go": ext.Files["mem/store/store.go"],
		"db/store/store.go":  ext.Files["db/store/store.go"],
		"types.go":           ext.Files["types.go"],
		"wire_a.go":          "//go:build wireinject\n\npackage cfg\n\nimport (\n\t\"github.com/google/wire\"\n\t\"{{PKG}}/mem/store\"\n)\n\nvar CacheSet = wire.NewSet(store.NewMem, wire.Bind(new(Cache), new(*store.Mem)))\n",
		"wire_b.go":          "//go:build wireinject\n\npackage cfg\n\nimport (\n\t\"github.com/google/wire\"\n\t\"{{PKG}}/db/store\"\n)\n\nvar StoreSet = wire.NewSet(store.NewSQL, wire.Bind(new(Store), new(*store.SQL)))\n\nfunc InitApp() *App {\n\twire.Build(CacheSet, StoreSet, NewQ, NewApp)\n\treturn nil\n}\n",
	}}
	out = append(out, ext2)
	ext3 := &Config{Family: "W2", Desc: "Bind in a set without its constructor, external package under an alias", Pkg: "cfg", Injectors: []string{"InitApp"}, Files: map[string]string{
		"mem/store/store.go": ext.Files["mem/store/store.go"],
		"db/store/store.go":  ext.Files["db/store/store.go"],
		"types.go":           ext.Files["types.go"],
		"wire.go":            "//go:build wireinject\n\npackage cfg\n\nimport (\n\t\"github.com/google/wire\"\n\tdbstore \"{{PKG}}/db/store\"\n\t\"{{PKG}}/mem/store\"\n)\n\nvar CacheBind = wire.NewSet(wire.Bind(new(Cache), new(*store.Mem)))\nvar StoreBind = wire.NewSet(wire.Bind(new(Store), new(*dbstore.SQL)))\n\nfunc InitApp() *App {\n\twire.Build(CacheBind, StoreBind, store.NewMem, dbstore.NewSQL, NewQ, NewApp)\n\treturn nil\n}\n",
	}}
	out = append(out, ext3)
	// struct with a field of an external type that is NOT selected
	out = append(out, &Config{Family: "W2", Desc: "FieldsOf subset of a struct with an unselected external-typed field", Pkg: "cfg", Injectors: []string{"InitQ"}, Files: map[string]string{
		"types.go": "package cfg\n\nimport (\n\t\"bytes\"\n\t\"time\"\n)\n\ntype Opts struct {\n\tName    string\n\tTimeout time.Duration\n\tClient  *bytes.Buffer\n}\n\ntype Q struct{ _ int }\n\nfunc NewOpts() *Opts { return &Opts{} }\nfunc NewQ(name string) *Q { return &Q{} }\n",
		"wire.go":  "//go:build wireinject\n\npackage cfg\n\nimport \"github.com/google/wire\"\n\nfunc InitQ() *Q {\n\twire.Build(NewOpts, wire.FieldsOf(new(*Opts), \"Name\"), NewQ)\n\treturn nil\n}\n",
	}})
	out = append(out, &Config{Family: "W2", Desc: "Struct subset of a struct with an unselected external-typed field", Pkg: "cfg", Injectors: []string{"InitQ"}, Files: map[string]string{
		"types.go": "package cfg\n\nimport \"time\"\n\ntype Opts struct {\n\tName    string\n\tTimeout time.Duration\n}\n\ntype Q struct{ _ int }\n\nfunc NewName() string { return \"n\" }\nfunc NewQ(o *Opts) *Q { return &Q{} }\n",
		"wire.go":  "//go:build wireinject\n\npackage cfg\n\nimport \"github.com/google/wire\"\n\nfunc InitQ() *Q {\n\twire.Build(NewName, wire.Struct(new(Opts), \"Name\"), NewQ)\n\treturn nil\n}\n",
	}})
	// same-named packages, same-named types, a Bind to one of them
	for _, order := range []string{"v1codec.New, codec.New", "codec.New, v1codec.New"} {
		out = append(out, &Config{Family: "W2", Desc: "same-named types in same-named packages, Bind to the second (" + order + ")", Pkg: "cfg", Injectors: []string{"InitS"}, Files: map[string]string{
			"v1/codec/codec.go": "package codec\n\ntype Codec struct{ _ int }\n\nfunc (*Codec) Enc() string { return \"v1\" }\nfunc New() *Codec { return &Codec{} }\n",
			"v2/codec/codec.go": "package codec\n\ntype Codec struct{ _ int }\n\nfunc (*Codec) Enc() string { return \"v2\" }\nfunc New() (*Codec, error) { return &Codec{}, nil }\n",
			"types.go":          "package cfg\n\nimport v1codec \"{{PKG}}/v1/codec\"\n\ntype Encoder interface{ Enc() string }\ntype S struct{ _ int }\n\nfunc NewS(e Encoder, legacy *v1codec.Codec) *S { return &S{} }\n",
			"wire.go":           "//go:build wireinject\n\npackage cfg\n\nimport (\n\t\"github.com/google/wire\"\n\tv1codec \"{{PKG}}/v1/codec\"\n\t\"{{PKG}}/v2/codec\"\n)\n\nfunc InitS() (*S, error) {\n\twire.Build(" + order + ", wire.Bind(new(Encoder), new(*codec.Codec)), NewS)\n\treturn nil, nil\n}\n",
		}})
	}
	// multi-file
	mf := feature("multi-file", "sets in one file, injector in another", `
func InitApp(dsn string) (*App, error) {
	wire.Build(DataSet, NewApp)
	return nil, nil
}
`, "InitApp")
	mf.Files["sets.go"] = "package cfg\n\nimport \"github.com/google/wire\"\n\nvar BaseSet = wire.NewSet(NewLogger, NewCache)\nvar DataSet = wire.NewSet(BaseSet, NewDB, NewPG, wire.Bind(new(Repo), new(*PG)))\n"
	out = append(out, mf)
	return out
}

// invalidConfigs: inputs of the kinds the property lists; migrate must exit
// non-zero and write nothing.
func invalidConfigs() []*Config {
	var out []*Config
	mk := func(kind, desc string, files map[string]string) {
		out = append(out, &Config{Family: "WI", Desc: desc, Pkg: "cfg", Files: files, Invalid: kind})
	}
	mk("syntax", "syntax error in the wire file", map[string]string{"types.go": featTypes, "wire.go": wireHdr + "func InitApp() *App {\n\twire.Build(NewLogger,\n"})
	mk("type", "type error: undefined provider", map[string]string{"types.go": featTypes, "wire.go": wireHdr + "var S = wire.NewSet(NoSuchProvider)\n"})
	mk("duplicate-set", "duplicate set name across files", map[string]string{"types.go": featTypes,
		"a.go": "package cfg\n\nimport \"github.com/google/wire\"\n\nvar S = wire.NewSet(NewLogger)\n",
		"b.go": "//go:build wireinject\n\npackage cfg\n\nimport \"github.com/google/wire\"\n\nvar S = wire.NewSet(NewCache)\n"})
	mk("missing-constructor", "Bind to a type without constructor", map[string]string{"types.go": strings.Replace(strings.Replace(featTypes, "func NewPG(db *DB) *PG                   { return &PG{} }\n", "", 1), "func ProvidePG(db *DB, l *Logger) *PG    { return &PG{} }\n", "", 1),
		"wire.go": wireHdr + "var RepoSet = wire.NewSet(wire.Bind(new(Repo), new(*PG)))\n"})
	// several packages of one name in one invocation, the defect in the second one
	good := "package main\n\ntype L struct{ _ int }\n\nfunc NewL() *L { return &L{} }\n\nfunc main() {}\n"
	goodWire := "//go:build wireinject\n\npackage main\n\nimport \"github.com/google/wire\"\n\nfunc InitL() *L {\n\twire.Build(NewL)\n\treturn nil\n}\n"
	for _, kind := range []string{"syntax", "type"} {
		bad := "//go:build wireinject\n\npackage main\n\nimport \"github.com/google/wire\"\n\nfunc InitL() *L {\n\twire.Build(NewL,\n"
		if kind == "type" {
			bad = "//go:build wireinject\n\npackage main\n\nimport \"github.com/google/wire\"\n\nvar S = wire.NewSet(NoSuchProvider)\n"
		}
		out = append(out, &Config{Family: "WI", Desc: kind + " error in the second of two packages named main", Pkg: "main", Invalid: kind + "-second-package",
			Patterns: []string{"./cmd/api", "./cmd/worker"},
			Files: map[string]string{"cmd/api/main.go": good, "cmd/api/wire.go": goodWire, "cmd/worker/main.go": good, "cmd/worker/wire.go": bad}})
	}
	return out
}

// FromTestdata turns the repository's migrate testdata inputs that contain a
// wire.Build into configurations (family W3).
func FromTestdata(repo string) []*Config {
	var out []*Config
	root := filepath.Join(repo, "internal/migrate/testdata")
	ents, _ := os.ReadDir(root)
	for _, e := range ents {
		if !e.IsDir() {
			continue
		}
		dir := filepath.Join(root, e.Name())
		files := map[string]string{}
		pkg := ""
		hasBuild := false
		var injectors []string
		fents, _ := os.ReadDir(dir)
		sub := false
		for _, f := range fents {
			if f.IsDir() {
				sub = true
				continue
			}
			if !strings.HasSuffix(f.Name(), ".go") || strings.HasPrefix(f.Name(), "expected") {
				continue
			}
			data, err := os.ReadFile(filepath.Join(dir, f.Name()))
			if err != nil {
				continue
			}
			src := string(data)
			files[f.Name()] = src
			for _, l := range strings.Split(src, "\n") {
				if strings.HasPrefix(l, "package ") && pkg == "" {
					pkg = strings.TrimSpace(strings.TrimPrefix(l, "package "))
				}
				if strings.HasPrefix(l, "func ") && strings.Contains(src, "wire.Build(") {
					name := strings.TrimPrefix(l, "func ")
					if i := strings.IndexByte(name, '('); i > 0 {
						injectors = append(injectors, name[:i])
					}
				}
			}
			if strings.Contains(src, "wire.Build(") {
				hasBuild = true
			}
		}
		if !hasBuild || sub || pkg == "" {
			continue
		}
		sort.Strings(injectors)
		out = append(out, &Config{Family: "W3", Desc: "testdata/" + e.Name(), Pkg: pkg, Files: files, Injectors: injectors})
	}
	return out
}

func All(repo string, thorough bool) []*Config {
	n := 3
	if thorough {
		n = 4
	}
	out := dagConfigs(n)
	out = append(out, featureConfigs()...)
	out = append(out, FromTestdata(repo)...)
	for i, c := range out {
		c.Name = fmt.Sprintf("c%03d", i)
	}
	return out
}

func Invalid() []*Config {
	out := invalidConfigs()
	for i, c := range out {
		c.Name = fmt.Sprintf("i%03d", i)
	}
	return out
}

// IsWireFile reports whether a source file imports google/wire.
func IsWireFile(src string) bool { return strings.Contains(src, "\"github.com/google/wire\"") }

// Separable reports whether the wire files of the configuration hold nothing
// but wire declarations (sets and injector stubs), so that they can be set
// aside without losing the types and providers the migrated file refers to.
func (c *Config) Separable() bool {
	for _, src := range c.Files {
		if !IsWireFile(src) {
			continue
		}
		for _, l := range strings.Split(src, "\n") {
			if strings.HasPrefix(l, "type ") {
				return false
			}
			if strings.HasPrefix(l, "func ") && !strings.Contains(src, "wire.Build(") {
				return false
			}
		}
		// provider functions next to injector stubs: any func whose body has no wire.Build
		parts := strings.Split(src, "\nfunc ")
		for _, p := range parts[1:] {
			end := strings.Index(p, "\n}\n")
			body := p
			if end >= 0 {
				body = p[:end]
			}
			if !strings.Contains(body, "wire.Build(") {
				return false
			}
		}
	}
	return true
}
