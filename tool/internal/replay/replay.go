// Package replay runs a solver-produced schedule against the real generated
// injector: an instrumented copy of the corpus package is compiled natively
// (with -race) and driven by a controller that releases provider exits and
// cancels the caller's context in the order the model gives.
package replay

import (
	"bytes"
	_ "embed"
	"encoding/json"
	"fmt"
	"go/ast"
	"go/parser"
	"go/printer"
	"go/token"
	"go/types"
	"os"
	"path/filepath"
	"strings"
	"time"

	"kverif/internal/corpus"
	"kverif/internal/load"
	"kverif/internal/pipeline"
)

//go:embed rt.go.txt
var rtSource string

// Step of a replay script.
type Step struct {
	Gate  string   `json:"gate,omitempty"` // pass: gate id ("L<line>")
	N     int      `json:"n,omitempty"`    // pass: which arrival
	Op    string   `json:"op"`             // release | cancel | settle | barrier | pass
	Prov  string   `json:"prov,omitempty"`
	Provs []string `json:"provs,omitempty"` // barrier: all of these must be inside at once
}

type Script struct {
	Faults     []string `json:"faults"`
	Steps      []Step   `json:"steps"`
	Gates      bool     `json:"gates"`       // the generated file is compiled with gates in front of its blocking operations
	ReleaseAll bool     `json:"release_all"` // open every gate after the scripted steps
	GraceMs    int      `json:"grace_ms"`
	Repeat     int      `json:"repeat"`
}

type Observation struct {
	Run          int      `json:"run"`
	Realised     bool     `json:"realised"` // every scripted step could be carried out
	StuckAt      string   `json:"stuck_at,omitempty"`
	Returned     bool     `json:"returned"`
	ValueZero    bool     `json:"value_zero"`
	ValueID      string   `json:"value_id"`
	Err          string   `json:"err"` // "nil", "fault:<prov>", "context.Canceled", "other:<text>", "none" (no error result)
	Panic        string   `json:"panic,omitempty"`
	Leaked       int      `json:"leaked"`       // goroutines still inside the generated file after return+grace (all gates open)
	// RunningAtReturn: goroutines inside the generated file at the moment the injector returned
	RunningAtReturn int `json:"running_at_return"`
	BlockedMain  bool     `json:"blocked_main"` // injector did not return and its goroutine sits in the generated file
	Log          []string `json:"log"`
	LeakSample   string   `json:"leak_sample,omitempty"`
	EnteredAfter []string `json:"entered_after,omitempty"`
}

type Result struct {
	Observations []Observation
	Race         bool
	Output       string
	Err          error
}

func argExpr(t types.Type) string {
	s := types.TypeString(t, func(*types.Package) string { return "" })
	switch {
	case s == "context.Context" || s == "Context":
		return "ctx"
	case strings.HasPrefix(s, "*"):
		return "&" + s[1:] + "{id: \"in_p" + s[1:] + "\"}"
	}
	switch u := t.Underlying().(type) {
	case *types.Interface:
		return "nil"
	case *types.Basic:
		if u.Info()&types.IsString != 0 {
			return s + "(\"a\")"
		}
		return s + "(1)"
	}
	return s + "{}"
}

// Run executes the script against the injector d of item it.
func Run(p *pipeline.Pipe, it *pipeline.Item, d corpus.Decl, sc Script) *Result {
	res := &Result{}
	if it.Types == nil {
		res.Err = fmt.Errorf("item not loaded")
		return res
	}
	obj := it.Types.Scope().Lookup(d.Name)
	if obj == nil {
		res.Err = fmt.Errorf("no function %s", d.Name)
		return res
	}
	sig := obj.Type().(*types.Signature)
	rtDir := filepath.Join(p.CorpusDir, "verifrt")
	_ = os.MkdirAll(rtDir, 0o755)
	if err := os.WriteFile(filepath.Join(rtDir, "rt.go"), []byte(rtSource), 0o644); err != nil {
		res.Err = err
		return res
	}
	dir := filepath.Join(p.CorpusDir, "rp_"+it.Prog.Pkg+"_"+d.Name)
	_ = os.RemoveAll(dir)
	_ = os.MkdirAll(dir, 0o755)
	defer os.RemoveAll(dir)
	body := func(pr corpus.Prov) string {
		var sb strings.Builder
		var argNames []string
		for i := range pr.Params {
			argNames = append(argNames, fmt.Sprintf("a%d", i))
		}
		argList := strings.Join(argNames, ", ")
		if argList != "" {
			argList = ", " + argList
		}
		fmt.Fprintf(&sb, "\tverifrt.Enter(%q%s)\n", pr.Name, argList)
		var zeros []string
		for _, r := range pr.Results {
			if strings.HasPrefix(r, "*") {
				zeros = append(zeros, "nil")
			} else {
				zeros = append(zeros, "*new("+r+")")
			}
		}
		if pr.Err {
			fmt.Fprintf(&sb, "\tif err := verifrt.Exit(%q); err != nil {\n\t\treturn %s\n\t}\n", pr.Name, strings.Join(append(zeros, "err"), ", "))
		} else {
			fmt.Fprintf(&sb, "\t_ = verifrt.Exit(%q)\n", pr.Name)
		}
		var rets []string
		for i, r := range pr.Results {
			idExpr := fmt.Sprintf("verifrt.ID(%q, %d%s)", pr.Name, i, argList)
			switch {
			case strings.HasPrefix(r, "*S") || strings.HasPrefix(r, "S"):
				rets = append(rets, structLit(it.Prog, r, idExpr))
			case strings.HasPrefix(r, "*"):
				rets = append(rets, "&"+r[1:]+"{id: "+idExpr+"}")
			default:
				rets = append(rets, "*new("+r+")")
			}
		}
		if pr.Err {
			rets = append(rets, "nil")
		}
		fmt.Fprintf(&sb, "\treturn %s\n", strings.Join(rets, ", "))
		return sb.String()
	}
	it.Prog.ReplayTypes = true
	defer func() { it.Prog.ReplayTypes = false }()
	for name, src := range it.Prog.Emit(body, []string{"verifcorpus/verifrt"}) {
		_ = os.WriteFile(filepath.Join(dir, name), []byte(src), 0o644)
	}
	for name, src := range it.GenSrc {
		if sc.Gates {
			if g, err := gateBlockingOps(src); err == nil {
				src = g
			}
		}
		_ = os.WriteFile(filepath.Join(dir, name), []byte(src), 0o644)
	}
	var args []string
	for i := 0; i < sig.Params().Len(); i++ {
		args = append(args, argExpr(sig.Params().At(i).Type()))
	}
	hasErr := sig.Results().Len() == 2
	call := fmt.Sprintf("%s(%s)", d.Name, strings.Join(args, ", "))
	assign := "v := " + call + "\n\t\t\tvar err error; hasErr := false"
	if hasErr {
		assign = "v, err := " + call + "\n\t\t\thasErr := true"
	}
	zeroCheck := "false"
	if _, ok := sig.Results().At(0).Type().Underlying().(*types.Pointer); ok {
		zeroCheck = "v == nil"
	}
	test := fmt.Sprintf(replayTestTmpl, it.Prog.Pkg, assign, zeroCheck)
	test = strings.Replace(test, "/*VALUEID*/", "r.id = verifIDOf(v)", 1)
	_ = os.WriteFile(filepath.Join(dir, "replay_test.go"), []byte(test), 0o644)
	if sc.GraceMs == 0 {
		sc.GraceMs = 300
	}
	if sc.Repeat == 0 {
		sc.Repeat = 1
	}
	data, _ := json.Marshal(sc)
	sp := filepath.Join(dir, "script.json")
	_ = os.WriteFile(sp, data, 0o644)
	out, err := load.Run(p.CorpusDir, false, 4*time.Minute, []string{"VERIF_SCRIPT=" + sp, "GORACE=halt_on_error=0"},
		"go", "test", "-race", "-vet=off", "-count=1", "-run", "^TestVerifReplay$", "-v", "./"+filepath.Base(dir))
	res.Output = string(out)
	res.Race = strings.Contains(res.Output, "WARNING: DATA RACE")
	for _, line := range strings.Split(res.Output, "\n") {
		if i := strings.Index(line, "VERIF-OBS "); i >= 0 {
			var o Observation
			if json.Unmarshal([]byte(line[i+len("VERIF-OBS "):]), &o) == nil {
				res.Observations = append(res.Observations, o)
			}
		}
	}
	if len(res.Observations) == 0 {
		// a nil dereference inside the generated injector's own goroutine kills the test binary
		// before it can report: that crash of the real code is the observation
		if strings.Contains(res.Output, "nil pointer dereference") && strings.Contains(res.Output, "/"+filepath.Base(dir)+"."+d.Name+".func") {
			res.Observations = append(res.Observations, Observation{Panic: "nil pointer dereference inside a goroutine of the generated injector (a value read before it was written)"})
			return res
		}
		res.Err = fmt.Errorf("no observation (%v): %s", err, tail(res.Output, 15))
	}
	return res
}

func structLit(p *corpus.Program, typ string, idExpr string) string {
	name := strings.TrimPrefix(typ, "*")
	fs := []string{"id: " + idExpr}
	for _, f := range p.Structs[name] {
		parts := strings.Fields(f)
		if len(parts) == 2 && strings.HasPrefix(parts[1], "*") {
			fs = append(fs, fmt.Sprintf("%s: &%s{id: \"fld_%s_%s(\" + %s + \")\"}", parts[0], parts[1][1:], name, parts[0], idExpr))
		}
	}
	lit := name + "{" + strings.Join(fs, ", ") + "}"
	if strings.HasPrefix(typ, "*") {
		return "&" + lit
	}
	return lit
}

func tail(s string, n int) string {
	ls := strings.Split(strings.TrimSpace(s), "\n")
	if len(ls) > n {
		ls = ls[len(ls)-n:]
	}
	return strings.Join(ls, "\n")
}

const replayTestTmpl = `package %[1]s

import (
	"context"
	"encoding/json"
	"errors"
	"fmt"
	"os"
	"testing"
	"time"

	"verifcorpus/verifrt"
)

type vStep struct {
	Gate  string   ` + "`json:\"gate\"`" + `
	N     int      ` + "`json:\"n\"`" + `
	Op    string   ` + "`json:\"op\"`" + `
	Prov  string   ` + "`json:\"prov\"`" + `
	Provs []string ` + "`json:\"provs\"`" + `
}

func verifIDOf(v any) string {
	if x, ok := v.(verifrt.IDer); ok {
		return x.VerifID()
	}
	return fmt.Sprintf("%%v", v)
}
type vScript struct {
	Faults     []string ` + "`json:\"faults\"`" + `
	Steps      []vStep  ` + "`json:\"steps\"`" + `
	ReleaseAll bool     ` + "`json:\"release_all\"`" + `
	GraceMs    int      ` + "`json:\"grace_ms\"`" + `
	Repeat     int      ` + "`json:\"repeat\"`" + `
}
type vObs struct {
	Run         int      ` + "`json:\"run\"`" + `
	Realised    bool     ` + "`json:\"realised\"`" + `
	StuckAt     string   ` + "`json:\"stuck_at,omitempty\"`" + `
	Returned    bool     ` + "`json:\"returned\"`" + `
	ValueID     string   ` + "`json:\"value_id\"`" + `
	ValueZero   bool     ` + "`json:\"value_zero\"`" + `
	Err         string   ` + "`json:\"err\"`" + `
	Panic       string   ` + "`json:\"panic,omitempty\"`" + `
	Leaked      int      ` + "`json:\"leaked\"`" + `
	RunningAtReturn int  ` + "`json:\"running_at_return\"`" + `
	BlockedMain bool     ` + "`json:\"blocked_main\"`" + `
	Log         []string ` + "`json:\"log\"`" + `
	LeakSample  string   ` + "`json:\"leak_sample,omitempty\"`" + `
}

func TestVerifReplay(t *testing.T) {
	var sc vScript
	data, err := os.ReadFile(os.Getenv("VERIF_SCRIPT"))
	if err != nil {
		t.Fatal(err)
	}
	if err := json.Unmarshal(data, &sc); err != nil {
		t.Fatal(err)
	}
	grace := time.Duration(sc.GraceMs) * time.Millisecond
	for run := 0; run < sc.Repeat; run++ {
		verifrt.Reset()
		for _, f := range sc.Faults {
			verifrt.SetFault(f)
		}
		obs := vObs{Run: run, Realised: true}
		ctx, cancel := context.WithCancel(context.Background())
		_ = ctx
		type result struct {
			zero   bool
			id     string
			err    error
			hasErr bool
			panic  string
		}
		done := make(chan result, 1)
		go func() {
			var r result
			defer func() {
				if p := recover(); p != nil {
					r.panic = fmt.Sprint(p)
				}
				done <- r
			}()
			%[2]s
			r.zero = %[3]s
			/*VALUEID*/
			r.err = err
			r.hasErr = hasErr
		}()
		var got *result
		poll := func(d time.Duration) {
			if got != nil {
				return
			}
			select {
			case r := <-done:
				got = &r
			case <-time.After(d):
			}
		}
	steps:
		for _, s := range sc.Steps {
			switch s.Op {
			case "release":
				if !verifrt.WaitEntered(s.Prov, 2*time.Second) {
					obs.Realised = false
					obs.StuckAt = "release " + s.Prov + ": never entered"
					break steps
				}
				verifrt.Release(s.Prov)
			case "pass":
				if !verifrt.Pass(s.Gate, s.N, 2*time.Second) {
					obs.Realised = false
					obs.StuckAt = fmt.Sprintf("pass %s#%d: never arrived", s.Gate, s.N)
					break steps
				}
			case "barrier":
				if p, ok := verifrt.WaitAllEntered(s.Provs, 2*time.Second); !ok {
					obs.Realised = false
					obs.StuckAt = "barrier: " + p + " is not entered while the others are held inside"
					break steps
				}
			case "cancel":
				cancel()
			case "settle":
				time.Sleep(20 * time.Millisecond)
			}
			poll(0)
		}
		time.Sleep(30 * time.Millisecond)
		if sc.ReleaseAll {
			verifrt.ReleaseAll()
		}
		poll(grace)
		if got == nil {
			n, sample := verifrt.GoroutinesIn("_band.go")
			obs.BlockedMain = n > 0
			obs.LeakSample = sample
		} else {
			obs.Returned = true
			obs.ValueZero = got.zero
			obs.ValueID = got.id
			obs.Panic = got.panic
			switch {
			case !got.hasErr:
				obs.Err = "none"
			case got.err == nil:
				obs.Err = "nil"
			default:
				if p, ok := verifrt.IsFault(got.err); ok {
					obs.Err = "fault:" + p
				} else if errors.Is(got.err, context.Canceled) {
					obs.Err = "context.Canceled"
				} else {
					obs.Err = "other:" + got.err.Error()
				}
			}
			// join check: goroutines of the injector still running at the moment it returned
			obs.RunningAtReturn, _ = verifrt.GoroutinesIn("_band.go")
			// leak check: open every gate, give goroutines time to finish
			verifrt.ReleaseAll()
			time.Sleep(grace)
			obs.Leaked, obs.LeakSample = verifrt.GoroutinesIn("_band.go")
		}
		obs.Log = verifrt.Snapshot()
		cancel()
		verifrt.ReleaseAll()
		b, _ := json.Marshal(obs)
		fmt.Println("VERIF-OBS " + string(b))
	}
}
`

// gateBlockingOps inserts verifrt.Gate("L<line>") in front of every select,
// plain receive statement and eg.Wait() statement of a generated file. Lines
// are those of the unmodified file (what the SSA positions refer to).
func gateBlockingOps(src string) (string, error) {
	fset := token.NewFileSet()
	f, err := parser.ParseFile(fset, "band.go", src, parser.ParseComments)
	if err != nil {
		return "", err
	}
	gate := func(pos token.Pos) ast.Stmt {
		return &ast.ExprStmt{X: &ast.CallExpr{
			Fun:  &ast.SelectorExpr{X: ast.NewIdent("verifrt"), Sel: ast.NewIdent("Gate")},
			Args: []ast.Expr{&ast.BasicLit{Kind: token.STRING, Value: fmt.Sprintf("%q", fmt.Sprintf("L%d", fset.Position(pos).Line))}},
		}}
	}
	isWaitCall := func(e ast.Expr) bool {
		c, ok := e.(*ast.CallExpr)
		if !ok {
			return false
		}
		sel, ok := c.Fun.(*ast.SelectorExpr)
		return ok && sel.Sel.Name == "Wait"
	}
	blocking := func(st ast.Stmt) (token.Pos, bool) {
		switch s := st.(type) {
		case *ast.SelectStmt:
			return s.Select, true
		case *ast.ExprStmt:
			if u, ok := s.X.(*ast.UnaryExpr); ok && u.Op == token.ARROW {
				return u.OpPos, true
			}
			if isWaitCall(s.X) {
				return s.X.(*ast.CallExpr).Lparen, true
			}
		case *ast.AssignStmt:
			if len(s.Rhs) == 1 && isWaitCall(s.Rhs[0]) {
				return s.Rhs[0].(*ast.CallExpr).Lparen, true
			}
		case *ast.IfStmt:
			if as, ok := s.Init.(*ast.AssignStmt); ok && len(as.Rhs) == 1 && isWaitCall(as.Rhs[0]) {
				return as.Rhs[0].(*ast.CallExpr).Lparen, true
			}
		case *ast.ReturnStmt:
			// return zero, eg.Wait()
			for _, r := range s.Results {
				if isWaitCall(r) {
					return r.(*ast.CallExpr).Lparen, true
				}
			}
		}
		return token.NoPos, false
	}
	var rewrite func(list []ast.Stmt) []ast.Stmt
	rewrite = func(list []ast.Stmt) []ast.Stmt {
		var out []ast.Stmt
		for _, st := range list {
			if pos, ok := blocking(st); ok {
				out = append(out, gate(pos))
			}
			ast.Inspect(st, func(n ast.Node) bool {
				switch b := n.(type) {
				case *ast.BlockStmt:
					b.List = rewrite(b.List)
					return false
				case *ast.CaseClause:
					b.Body = rewrite(b.Body)
					return false
				case *ast.CommClause:
					b.Body = rewrite(b.Body)
					return false
				}
				return true
			})
			out = append(out, st)
		}
		return out
	}
	for _, d := range f.Decls {
		if fd, ok := d.(*ast.FuncDecl); ok && fd.Body != nil {
			fd.Body.List = rewrite(fd.Body.List)
		}
	}
	// import the runtime
	f.Decls = append([]ast.Decl{&ast.GenDecl{Tok: token.IMPORT, Specs: []ast.Spec{&ast.ImportSpec{Path: &ast.BasicLit{Kind: token.STRING, Value: "\"verifcorpus/verifrt\""}}}}}, f.Decls...)
	var buf bytes.Buffer
	if err := printer.Fprint(&buf, token.NewFileSet(), f); err != nil {
		return "", err
	}
	return buf.String(), nil
}
