// Package load makes a scratch copy of /repo's working tree, drops harness
// files into it, and loads packages + SSA from the copy. No go command ever
// runs with its working directory inside /repo.
package load

import (
	"fmt"
	"os"
	"os/exec"
	"path/filepath"
	"strings"
	"sync"
	"time"

	"golang.org/x/tools/go/packages"
	"golang.org/x/tools/go/ssa"
	"golang.org/x/tools/go/ssa/ssautil"
)

const ToolchainBin = "/root/go/pkg/mod/golang.org/toolchain@v0.0.1-go1.25.5.linux-amd64/bin"

func RepoDir() string {
	if d := os.Getenv("VERIF_REPO"); d != "" {
		return d
	}
	return "/repo"
}

// OutDir is where evidence and replay artefacts are written: VerifDir() unless
// VERIF_OUT is set (seed evaluations against a patched copy must not overwrite the
// evidence of the real tree).
func OutDir() string {
	if d := os.Getenv("VERIF_OUT"); d != "" {
		return d
	}
	return VerifDir()
}

func VerifDir() string {
	if d := os.Getenv("VERIF_DIR"); d != "" {
		return d
	}
	return "/verif"
}

// Env returns the environment for go commands. workspace=true is for commands
// inside the scratch copy of /repo (go.work present: -mod=mod is refused there).
func Env(workspace bool, extra ...string) []string {
	var env []string
	for _, kv := range os.Environ() {
		k := kv[:strings.IndexByte(kv, '=')]
		switch k {
		case "PATH", "GOFLAGS", "GOTOOLCHAIN", "GOPROXY", "GOSUMDB", "GOWORK", "GO111MODULE":
			continue
		}
		env = append(env, kv)
	}
	env = append(env, "PATH="+os.Getenv("PATH"), "GOTOOLCHAIN=local", "GOPROXY=off", "GOSUMDB=off")
	if workspace {
		env = append(env, "GOFLAGS=-trimpath")
	} else {
		env = append(env, "GOFLAGS=-mod=mod -trimpath", "GOWORK=off")
	}
	return append(env, extra...)
}

type Scratch struct {
	Dir     string // root of all scratch data for this run
	Repo    string // copy of /repo's working tree
	cleaned bool
}

var (
	liveMu sync.Mutex
	live   = map[*Scratch]bool{}
)

// CleanupAll removes every live scratch directory (signal handler, exit path).
func CleanupAll() {
	liveMu.Lock()
	var all []*Scratch
	for s := range live {
		all = append(all, s)
	}
	liveMu.Unlock()
	for _, s := range all {
		s.Cleanup()
	}
}

func scratchBase() string {
	if d := os.Getenv("VERIF_SCRATCH"); d != "" {
		return d
	}
	return os.TempDir()
}

// NewScratch copies the working tree of /repo (without .git) to a fresh directory.
func NewScratch(tag string) (*Scratch, error) {
	dir, err := os.MkdirTemp(scratchBase(), "kverif-"+tag+"-")
	if err != nil {
		return nil, err
	}
	s := &Scratch{Dir: dir, Repo: filepath.Join(dir, "repo")}
	liveMu.Lock()
	live[s] = true
	liveMu.Unlock()
	cmd := exec.Command("rsync", "-a", "--exclude=.git", RepoDir()+"/", s.Repo+"/")
	if out, err := cmd.CombinedOutput(); err != nil {
		s.Cleanup()
		return nil, fmt.Errorf("rsync: %v: %s", err, out)
	}
	return s, nil
}

func (s *Scratch) Cleanup() {
	if s == nil || s.cleaned {
		return
	}
	s.cleaned = true
	liveMu.Lock()
	delete(live, s)
	liveMu.Unlock()
	if os.Getenv("VERIF_KEEP") != "" {
		fmt.Fprintln(os.Stderr, "keeping scratch", s.Dir)
		return
	}
	_ = exec.Command("chmod", "-R", "u+w", s.Dir).Run()
	_ = os.RemoveAll(s.Dir)
}

// WriteFile writes a file relative to the repo copy.
func (s *Scratch) WriteFile(rel string, data []byte) error {
	p := filepath.Join(s.Repo, rel)
	if err := os.MkdirAll(filepath.Dir(p), 0o755); err != nil {
		return err
	}
	return os.WriteFile(p, data, 0o644)
}

// CopyHarness copies /verif/harness/<name> to <rel> in the repo copy.
func (s *Scratch) CopyHarness(name, rel string) error {
	data, err := os.ReadFile(filepath.Join(VerifDir(), "harness", name))
	if err != nil {
		return err
	}
	return s.WriteFile(rel, data)
}

// Run runs a command in dir with the go environment.
func Run(dir string, workspace bool, timeout time.Duration, extraEnv []string, name string, args ...string) ([]byte, error) {
	cmd := exec.Command(name, args...)
	cmd.Dir = dir
	cmd.Env = Env(workspace, extraEnv...)
	done := make(chan struct{})
	var out []byte
	var err error
	go func() { out, err = cmd.CombinedOutput(); close(done) }()
	select {
	case <-done:
		return out, err
	case <-time.After(timeout):
		if cmd.Process != nil {
			_ = cmd.Process.Kill()
		}
		<-done
		return out, fmt.Errorf("timeout after %s", timeout)
	}
}

type Program struct {
	Prog  *ssa.Program
	Pkgs  []*packages.Package
	SSA   map[string]*ssa.Package // by package path
	Roots []*ssa.Package
}

// LoadSSA loads the patterns (relative to dir) with full syntax and builds SSA
// with instantiated generics for the whole dependency closure.
func LoadSSA(dir string, workspace bool, tests bool, patterns ...string) (*Program, error) {
	cfg := &packages.Config{
		Mode:  packages.LoadAllSyntax,
		Dir:   dir,
		Env:   Env(workspace),
		Tests: tests,
	}
	pkgs, err := packages.Load(cfg, patterns...)
	if err != nil {
		return nil, err
	}
	var errs []string
	packages.Visit(pkgs, nil, func(p *packages.Package) {
		for _, e := range p.Errors {
			errs = append(errs, e.Error())
		}
	})
	if len(errs) > 0 {
		if len(errs) > 10 {
			errs = errs[:10]
		}
		return nil, fmt.Errorf("package errors: %s", strings.Join(errs, "; "))
	}
	prog, roots := ssautil.AllPackages(pkgs, ssa.InstantiateGenerics|ssa.SanityCheckFunctions)
	prog.Build()
	p := &Program{Prog: prog, Pkgs: pkgs, SSA: map[string]*ssa.Package{}, Roots: roots}
	for _, sp := range prog.AllPackages() {
		p.SSA[sp.Pkg.Path()] = sp
	}
	return p, nil
}

func init() {
	// exec.Command resolves "go" through the parent's PATH (not cmd.Env), so
	// the pinned toolchain must come first in our own environment too.
	_ = os.Setenv("PATH", ToolchainBin+":"+os.Getenv("PATH"))
	_ = os.Setenv("GOTOOLCHAIN", "local")
	_ = os.Setenv("GOPROXY", "off")
	_ = os.Setenv("GOSUMDB", "off")
	_ = os.Unsetenv("GOFLAGS")
}

// TrimGoCache keeps the go build cache from growing without bound across runs: when it
// holds more than maxBytes, entries not used for longer than minAge are removed (go itself
// refreshes the mtime of an entry it uses at most once per hour, so minAge must exceed that;
// entries of concurrently running builds are therefore never touched). Builds made by the
// checks use -trimpath, which makes the scratch directory irrelevant for cache keys: a run on
// an unchanged tree adds ~20 MB, not ~700 MB.
func TrimGoCache(maxBytes int64, minAge time.Duration) {
	out, err := exec.Command("go", "env", "GOCACHE").Output()
	if err != nil {
		return
	}
	dir := strings.TrimSpace(string(out))
	if dir == "" || dir == "off" {
		return
	}
	type ent struct {
		path string
		size int64
		mod  time.Time
	}
	var ents []ent
	var total int64
	_ = filepath.Walk(dir, func(p string, info os.FileInfo, err error) error {
		if err != nil || info.IsDir() {
			return nil
		}
		total += info.Size()
		if n := info.Name(); strings.HasSuffix(n, "-a") || strings.HasSuffix(n, "-d") {
			ents = append(ents, ent{p, info.Size(), info.ModTime()})
		}
		return nil
	})
	if total <= maxBytes {
		return
	}
	cut := time.Now().Add(-minAge)
	for _, e := range ents {
		if e.mod.Before(cut) {
			_ = os.Remove(e.path)
		}
	}
}
