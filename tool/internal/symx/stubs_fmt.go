package symx

// Formatting, logging and error stubs. fmt.Sprintf/Errorf are interpreted by
// format string; log/slog is a no-op. Part of the trusted base (DESIGN §4).

import (
	"fmt"
	"go/types"
	"strings"

	"golang.org/x/tools/go/ssa"
)

// symErr is the dynamic value behind stub-created errors.
type symErr struct {
	Kind    string // "errorf", "new", "fs", "stub"
	Msg     value  // string or Sym(String)
	Wrapped value  // iface or nil
	ID      string // stable identity for classification
}

var symErrType = newOpaqueNamed("verif.Err")

func init() {
	hostTypes[symErrType] = func(recv iface, name string) hostFn {
		e := recv.v.(*symErr)
		switch name {
		case "Error":
			return func(fr *frame, args []value) value { return e.Msg }
		case "Unwrap":
			return func(fr *frame, args []value) value {
				if e.Wrapped == nil {
					return iface{}
				}
				return e.Wrapped
			}
		}
		return nil
	}
}

// NewErr builds an error value.
func NewErr(kind, id string, msg value, wrapped value) value {
	return iface{t: symErrType, v: &symErr{Kind: kind, Msg: msg, Wrapped: wrapped, ID: id}}
}

// ErrInfo returns the symErr behind an error value, following nothing.
func ErrInfo(v value) *symErr {
	if i, ok := v.(iface); ok {
		if e, ok := i.v.(*symErr); ok {
			return e
		}
	}
	return nil
}

// RootErr follows Wrapped links to the innermost stub error.
func RootErr(v value) *symErr {
	e := ErrInfo(v)
	for e != nil && e.Wrapped != nil {
		n := ErrInfo(e.Wrapped)
		if n == nil {
			break
		}
		e = n
	}
	return e
}

func IsNilIface(v value) bool {
	i, ok := v.(iface)
	return ok && i.t == nil
}

type fmtPiece struct {
	lit  string
	verb byte
	arg  int
}

func parseFormat(f string) []fmtPiece {
	var out []fmtPiece
	arg := 0
	var lit strings.Builder
	for i := 0; i < len(f); i++ {
		if f[i] != '%' {
			lit.WriteByte(f[i])
			continue
		}
		if i+1 < len(f) && f[i+1] == '%' {
			lit.WriteByte('%')
			i++
			continue
		}
		j := i + 1
		for j < len(f) && strings.IndexByte("+-# 0123456789.", f[j]) >= 0 {
			j++
		}
		if j >= len(f) {
			lit.WriteString(f[i:])
			break
		}
		if lit.Len() > 0 {
			out = append(out, fmtPiece{lit: lit.String()})
			lit.Reset()
		}
		out = append(out, fmtPiece{verb: f[j], arg: arg, lit: f[i : j+1]})
		arg++
		i = j
	}
	if lit.Len() > 0 {
		out = append(out, fmtPiece{lit: lit.String()})
	}
	return out
}

// fmtArgString renders one argument as a value (string or Sym).
func (ps *PathState) fmtArg(fr *frame, p fmtPiece, a value) value {
	if i, ok := a.(iface); ok {
		if i.t == nil {
			return "<nil>"
		}
		if i.t == symErrType {
			return i.v.(*symErr).Msg
		}
		a = i.v
		// error / Stringer implemented by interpreted code
		if p.verb == 'v' || p.verb == 's' || p.verb == 'w' {
			for _, mname := range []string{"Error", "String"} {
				if sel := fr.i.prog.MethodSets.MethodSet(i.t).Lookup(nil, mname); sel != nil {
					if m := fr.i.prog.MethodValue(sel); m != nil && m.Signature.Params().Len() == 0 {
						return call(fr.i, fr, 0, m, []value{a})
					}
				}
			}
		}
	}
	switch x := a.(type) {
	case Sym:
		switch x.S {
		case SString:
			if p.verb == 'q' {
				return Sym{S: SString, T: "(str.++ \"\\u{22}\" " + x.T + " \"\\u{22}\")"}
			}
			return x
		case SInt:
			return Sym{S: SString, T: "(itoa " + x.T + ")"}
		case SBool:
			return Sym{S: SString, T: "(ite " + x.T + " \"true\" \"false\")"}
		}
		return "<sym>"
	case string:
		return fmt.Sprintf(p.lit, x)
	case bool, int, int8, int16, int32, int64, uint, uint8, uint16, uint32, uint64, uintptr, float32, float64:
		return fmt.Sprintf(p.lit, x)
	}
	return "<" + fmt.Sprintf("%T", a) + ">"
}

func (ps *PathState) sprintf(fr *frame, format value, args []value) value {
	f, ok := format.(string)
	if !ok {
		panic(unsupported{"symbolic format string"})
	}
	var parts []value
	for _, p := range parseFormat(f) {
		if p.verb == 0 {
			parts = append(parts, p.lit)
			continue
		}
		if p.arg >= len(args) {
			parts = append(parts, "%!"+string(p.verb)+"(MISSING)")
			continue
		}
		parts = append(parts, ps.fmtArg(fr, p, args[p.arg]))
	}
	r := concatStrings(parts)
	if s, ok := r.(Sym); ok {
		return ps.Name(s, 48)
	}
	return r
}

func concatStrings(parts []value) value {
	anySym := false
	for _, p := range parts {
		if _, ok := p.(Sym); ok {
			anySym = true
		}
	}
	if !anySym {
		var sb strings.Builder
		for _, p := range parts {
			sb.WriteString(p.(string))
		}
		return sb.String()
	}
	var ts []string
	for _, p := range parts {
		s, _ := toSym(p)
		if s.T == `""` {
			continue
		}
		ts = append(ts, s.T)
	}
	if len(ts) == 1 {
		return Sym{S: SString, T: ts[0]}
	}
	return Sym{S: SString, T: "(str.++ " + strings.Join(ts, " ") + ")"}
}

func variadic(v value) []value {
	if v == nil {
		return nil
	}
	return v.([]value)
}

func init() {
	defaultIntercepts["fmt.Sprintf"] = func(ps *PathState, fr *frame, fn *ssa.Function, args []value) value {
		return ps.sprintf(fr, args[0], variadic(args[1]))
	}
	defaultIntercepts["fmt.Errorf"] = func(ps *PathState, fr *frame, fn *ssa.Function, args []value) value {
		va := variadic(args[1])
		msg := ps.sprintf(fr, args[0], va)
		var wrapped value
		f := args[0].(string)
		for _, p := range parseFormat(f) {
			if p.verb == 'w' && p.arg < len(va) {
				wrapped = va[p.arg]
			}
		}
		return NewErr("errorf", "errorf:"+f, msg, wrapped)
	}
	defaultIntercepts["errors.New"] = func(ps *PathState, fr *frame, fn *ssa.Function, args []value) value {
		id := "new"
		if s, ok := args[0].(string); ok {
			id = "new:" + s
		}
		return NewErr("new", id, args[0], nil)
	}
	// errors.Is / errors.As / errors.Unwrap over stub errors and interpreted error types
	unwrap := func(fr *frame, e iface) (iface, bool) {
		if e.t == nil {
			return iface{}, false
		}
		if se, ok := e.v.(*symErr); ok {
			if w, ok := se.Wrapped.(iface); ok && w.t != nil {
				return w, true
			}
			return iface{}, false
		}
		if sel := fr.i.prog.MethodSets.MethodSet(e.t).Lookup(nil, "Unwrap"); sel != nil {
			if m := fr.i.prog.MethodValue(sel); m != nil && m.Signature.Params().Len() == 0 {
				if w, ok := call(fr.i, fr, 0, m, []value{e.v}).(iface); ok && w.t != nil {
					return w, true
				}
			}
		}
		return iface{}, false
	}
	defaultIntercepts["errors.As"] = func(ps *PathState, fr *frame, fn *ssa.Function, args []value) value {
		e, _ := args[0].(iface)
		tgt, ok := args[1].(iface)
		if !ok || tgt.t == nil {
			panic(unsupported{"errors.As with a nil target"})
		}
		elem := mustDeref(tgt.t)
		ptr := tgt.v.(*value)
		for e.t != nil {
			if _, isIface := elem.Underlying().(*types.Interface); !isIface && types.Identical(e.t, elem) {
				*ptr = e.v
				return true
			}
			var more bool
			if e, more = unwrap(fr, e); !more {
				break
			}
		}
		return false
	}
	defaultIntercepts["errors.Is"] = func(ps *PathState, fr *frame, fn *ssa.Function, args []value) value {
		e, _ := args[0].(iface)
		t, _ := args[1].(iface)
		// errors produced by the filesystem stubs stand for the io/fs sentinels
		sentinel := map[string]string{"fs:notexist": "new:file does not exist", "fs:exist": "new:file already exists", "fs:stat-denied": "new:permission denied"}
		for e.t != nil {
			if e.t == t.t && (e.v == t.v || equalsSafe(e.t, e.v, t.v)) {
				return true
			}
			if se, ok := e.v.(*symErr); ok {
				if te, ok := t.v.(*symErr); ok && (se.ID == te.ID || (sentinel[se.ID] != "" && sentinel[se.ID] == te.ID)) {
					return true
				}
			}
			var more bool
			if e, more = unwrap(fr, e); !more {
				break
			}
		}
		return t.t == nil && e.t == nil
	}
	defaultIntercepts["errors.Unwrap"] = func(ps *PathState, fr *frame, fn *ssa.Function, args []value) value {
		e, _ := args[0].(iface)
		w, _ := unwrap(fr, e)
		return w
	}
	noop := func(ps *PathState, fr *frame, fn *ssa.Function, args []value) value { return nil }
	for _, n := range []string{"Debug", "Info", "Warn", "Error"} {
		defaultIntercepts["log/slog."+n] = noop
	}
	defaultIntercepts["fmt.Println"] = func(ps *PathState, fr *frame, fn *ssa.Function, args []value) value {
		return tuple{0, iface{}}
	}
	defaultIntercepts["fmt.Printf"] = defaultIntercepts["fmt.Println"]
	defaultIntercepts["fmt.Fprintf"] = defaultIntercepts["fmt.Println"]
	defaultIntercepts["fmt.Fprintln"] = defaultIntercepts["fmt.Println"]
}

// defaultIntercepts are installed into every Engine by NewEngine.
var defaultIntercepts = map[string]Intercept{}

// NewEngine returns an engine with the default stubs installed.
func NewEngine(prog *ssa.Program) *Engine {
	e := &Engine{Prog: prog, Intercepts: map[string]Intercept{}}
	for k, v := range defaultIntercepts {
		e.Intercepts[k] = v
	}
	return e
}

var _ = types.Typ

// SMTPrelude defines helper functions used by the stubs. itoa is exact
// (decimal rendering of any integer); small values are tabulated because the
// solvers reason far better about literals than about str.from_int.
func SMTPrelude() []string {
	d := "(define-fun itoa ((n Int)) String "
	for i := 0; i < 12; i++ {
		d += fmt.Sprintf("(ite (= n %d) \"%d\" ", i, i)
	}
	d += "(ite (>= n 0) (str.from_int n) (str.++ \"-\" (str.from_int (- n))))" + strings.Repeat(")", 12) + ")"
	return []string{d}
}

func equalsSafe(t types.Type, x, y value) (eq bool) {
	defer func() {
		if recover() != nil {
			eq = false
		}
	}()
	return equals(t, x, y)
}

// strings.Builder uses unsafe tricks (copyCheck); it is modelled host-side as
// a list of parts keyed by the receiver's address.
func init() {
	parts := func(ps *PathState, recv value) *[]value {
		if ps.builders == nil {
			ps.builders = map[*value]*[]value{}
		}
		p := recv.(*value)
		b, ok := ps.builders[p]
		if !ok {
			b = &[]value{}
			ps.builders[p] = b
		}
		return b
	}
	defaultIntercepts["(*strings.Builder).WriteString"] = func(ps *PathState, fr *frame, fn *ssa.Function, args []value) value {
		b := parts(ps, args[0])
		*b = append(*b, args[1])
		n, _ := args[1].(string)
		return tuple{len(n), iface{}}
	}
	defaultIntercepts["(*strings.Builder).WriteByte"] = func(ps *PathState, fr *frame, fn *ssa.Function, args []value) value {
		b := parts(ps, args[0])
		*b = append(*b, string([]byte{byte(asInt64(args[1]))}))
		return iface{}
	}
	defaultIntercepts["(*strings.Builder).WriteRune"] = func(ps *PathState, fr *frame, fn *ssa.Function, args []value) value {
		b := parts(ps, args[0])
		*b = append(*b, string(rune(asInt64(args[1]))))
		return tuple{1, iface{}}
	}
	defaultIntercepts["(*strings.Builder).String"] = func(ps *PathState, fr *frame, fn *ssa.Function, args []value) value {
		return concatStrings(*parts(ps, args[0]))
	}
	defaultIntercepts["(*strings.Builder).Len"] = func(ps *PathState, fr *frame, fn *ssa.Function, args []value) value {
		n := 0
		for _, p := range *parts(ps, args[0]) {
			s, ok := p.(string)
			if !ok {
				panic(unsupported{"Builder.Len with symbolic parts"})
			}
			n += len(s)
		}
		return n
	}
	defaultIntercepts["(*strings.Builder).Grow"] = func(ps *PathState, fr *frame, fn *ssa.Function, args []value) value { return nil }
	defaultIntercepts["(*strings.Builder).Reset"] = func(ps *PathState, fr *frame, fn *ssa.Function, args []value) value {
		*parts(ps, args[0]) = nil
		return nil
	}
	defaultIntercepts["strings.Contains"] = func(ps *PathState, fr *frame, fn *ssa.Function, args []value) value {
		a, ok1 := args[0].(string)
		b, ok2 := args[1].(string)
		if ok1 && ok2 {
			return strings.Contains(a, b)
		}
		x, _ := toSym(args[0])
		y, _ := toSym(args[1])
		return Sym{S: SBool, T: "(str.contains " + x.T + " " + y.T + ")"}
	}
	defaultIntercepts["strings.HasPrefix"] = func(ps *PathState, fr *frame, fn *ssa.Function, args []value) value {
		a, ok1 := args[0].(string)
		b, ok2 := args[1].(string)
		if ok1 && ok2 {
			return strings.HasPrefix(a, b)
		}
		x, _ := toSym(args[0])
		y, _ := toSym(args[1])
		return Sym{S: SBool, T: "(str.prefixof " + y.T + " " + x.T + ")"}
	}
	defaultIntercepts["strings.HasSuffix"] = func(ps *PathState, fr *frame, fn *ssa.Function, args []value) value {
		a, ok1 := args[0].(string)
		b, ok2 := args[1].(string)
		if ok1 && ok2 {
			return strings.HasSuffix(a, b)
		}
		x, _ := toSym(args[0])
		y, _ := toSym(args[1])
		return Sym{S: SBool, T: "(str.suffixof " + y.T + " " + x.T + ")"}
	}
	defaultIntercepts["strings.TrimSuffix"] = func(ps *PathState, fr *frame, fn *ssa.Function, args []value) value {
		a, ok1 := args[0].(string)
		b, ok2 := args[1].(string)
		if ok1 && ok2 {
			return strings.TrimSuffix(a, b)
		}
		panic(unsupported{"strings.TrimSuffix on symbolic strings"})
	}
	defaultIntercepts["strings.Compare"] = func(ps *PathState, fr *frame, fn *ssa.Function, args []value) value {
		a, ok1 := args[0].(string)
		b, ok2 := args[1].(string)
		if ok1 && ok2 {
			return strings.Compare(a, b)
		}
		x, _ := toSym(args[0])
		y, _ := toSym(args[1])
		return Sym{S: SInt, T: "(ite (= " + x.T + " " + y.T + ") 0 (ite (str.< " + x.T + " " + y.T + ") (- 1) 1))"}
	}
}
