package symx

// Symbolic extension of the go/ssa interpreter: symbolic scalars (SMT terms),
// stateless forking by re-execution with a decision prefix, intrinsics
// (verifNondet*/verifAssume/verifAssert/verifReach/verifChoice), an intercept
// table for environment stubs, and explicit UNSUPPORTED / UNWIND outcomes.

import (
	"fmt"
	"go/types"
	"sort"
	"strings"
	"sync"
	"time"

	"golang.org/x/tools/go/ssa"
	"kverif/internal/smt"
)

type Sort int

const (
	SInt Sort = iota
	SBool
	SString
	SOther // uninterpreted / datatype sort named in Sym.U
)

// Sym is a symbolic scalar: an SMT-LIB term with its sort.
type Sym struct {
	S Sort
	T string
	U string // sort name when S == SOther
}

func (s Sym) String() string { return "sym:" + s.T }

func (s Sym) SortName() string {
	switch s.S {
	case SInt:
		return "Int"
	case SBool:
		return "Bool"
	case SString:
		return "String"
	}
	return s.U
}

// toSym converts a scalar interpreter value to a term.
func toSym(v value) (Sym, bool) {
	switch x := v.(type) {
	case Sym:
		return x, true
	case bool:
		if x {
			return Sym{S: SBool, T: "true"}, true
		}
		return Sym{S: SBool, T: "false"}, true
	case string:
		return Sym{S: SString, T: smt.StrLit(x)}, true
	case int, int8, int16, int32, int64, uint, uint8, uint16, uint32, uint64, uintptr:
		return Sym{S: SInt, T: smt.IntLit(asInt64(x))}, true
	}
	return Sym{}, false
}

func isSym(v value) bool { _, ok := v.(Sym); return ok }

// --- control panics (never visible to the interpreted program) -------------

type unsupported struct{ what string }
type unwind struct{ what string }
type pathEnd struct{ why string } // infeasible assumption or deliberate stop

func isControl(p any) bool {
	switch p.(type) {
	case unsupported, unwind, pathEnd:
		return true
	}
	return false
}

// --- engine -----------------------------------------------------------------

type Intercept func(ps *PathState, fr *frame, fn *ssa.Function, args []value) value

type Decision struct {
	Arity  int
	Choice int
	Kind   string // "branch", "choice:<tag>"
}

type SymDecl struct {
	Name string
	Sort string
	Tag  string
}

type AssertResult struct {
	ID      string
	Verdict string            // "holds", "violated", "unknown"
	Model   map[string]string // values of declared symbols when violated
	PC      []string
}

type PathResult struct {
	Decisions []Decision
	Outcome   string // "ok", "unsupported: …", "unwind: …", "panic: …", "stopped: …"
	Asserts   []AssertResult
	Reached   []string
	Events    []any
	Syms      []SymDecl
	PC        []string
	Ret       value
	Steps     int
	Inputs    []Input
}

type Engine struct {
	Prog       *ssa.Program
	Solver     *smt.Solver
	Intercepts map[string]Intercept
	// OpaqueCall, if non-nil, is consulted for every call of a function with
	// a body before it is interpreted; returning ok=true short-circuits it.
	OpaqueCall func(ps *PathState, fr *frame, fn *ssa.Function, args []value) (value, bool)
	AllowPkg   func(path string) bool // packages whose code may be interpreted
	EagerInit  func(path string) bool // packages initialised as part of their importer's init
	InitPkgs   []*ssa.Package         // packages whose init is run before each path
	MaxSteps   int
	MaxPaths   int
	Trace      bool
	Hooks      *Hooks
	AllocHook  func(ps *PathState, fr *frame, instr *ssa.Alloc, addr *value)
	// ZeroGlobals lists globals of foreign packages that may be read although
	// their package is never initialised (they are only handed to stubs).
	ZeroGlobals map[string]bool

	// Workers > 1 explores paths in parallel (each worker its own solver
	// handle from NewSolver); paths are independent re-executions.
	Workers   int
	NewSolver func() *smt.Solver
	mu        sync.Mutex

	// statistics
	Paths          int
	SolverBranches int // branch feasibility questions put to the solver
	FreshForks     int // forks on fresh inputs (no solver call)
	Unsupported    map[string]int
	Unwinds        int
	FuncsRun       map[string]bool
	Elapsed        time.Duration
}

// Hooks let a client (the concurrency extractor) take over memory and channel
// operations. A nil hook means default behaviour.
type Hooks struct {
	Load     func(ps *PathState, fr *frame, instr *ssa.UnOp, addr value) (value, bool)
	Store    func(ps *PathState, fr *frame, instr *ssa.Store, addr value, v value) bool
	MakeChan func(ps *PathState, fr *frame, instr *ssa.MakeChan) (value, bool)
	Recv     func(ps *PathState, fr *frame, instr *ssa.UnOp, ch value) (value, bool)
	Select   func(ps *PathState, fr *frame, instr *ssa.Select) (value, bool)
	Close    func(ps *PathState, fr *frame, ch value) bool
	Field    func(ps *PathState, fr *frame, instr ssa.Instruction, x value, field int) (value, bool)
	Return   func(ps *PathState, fr *frame, instr *ssa.Return)
}

type PathState struct {
	eng          *Engine
	prefix       []int
	decisions    []Decision
	pc           []string
	steps        int
	syms         []SymDecl
	asserts      []AssertResult
	reached      []string
	Events       []any
	newPrefixes  [][]int
	mapOrderFree bool
	interp       *interpreter
	User         any // client state for this path
	declared     map[string]bool
	inputs       []Input
	ndefs        int
	Defs         [][2]string // abbreviations introduced by Name
	sol          *smt.Solver
	pending      []pendingAssert
	builders     map[*value]*[]value
}

type pendingAssert struct {
	id   string
	term string
	npc  int // length of the path condition when the assertion was made
}

// Input is one value consumed by the harness, in consumption order; a solver
// model turns the list into a replay script for the native intrinsics.
type Input struct {
	Kind   string // "choice" or "sym"
	Name   string // symbol name for "sym"
	Sort   string
	Choice int
}

func (ps *PathState) Engine() *Engine { return ps.eng }

// Declare introduces a fresh solver constant (scoped to the current path).
func (ps *PathState) Declare(name, sort, tag string) {
	if ps.declared[name] {
		return
	}
	ps.declared[name] = true
	ps.syms = append(ps.syms, SymDecl{Name: name, Sort: sort, Tag: tag})
	if ps.sol != nil {
		ps.sol.Send(fmt.Sprintf("(declare-const %s %s)", name, sort))
	}
}

func (ps *PathState) Fresh(sort Sort, tag string) Sym {
	name := fmt.Sprintf("nd%d", len(ps.syms))
	s := Sym{S: sort, T: name}
	ps.Declare(name, s.SortName(), tag)
	ps.inputs = append(ps.inputs, Input{Kind: "sym", Name: name, Sort: s.SortName()})
	return s
}

func (ps *PathState) Assume(term string) {
	if term == "true" {
		return
	}
	ps.pc = append(ps.pc, term)
	if ps.sol != nil {
		ps.sol.Send("(assert " + term + ")")
	}
}

// Name abbreviates a large term by a fresh constant defined equal to it, so
// that later terms refer to it by name instead of copying its text.
func (ps *PathState) Name(s Sym, minLen int) Sym {
	if len(s.T) < minLen {
		return s
	}
	name := fmt.Sprintf("t%d", ps.ndefs)
	ps.ndefs++
	ps.declared[name] = true
	if ps.sol != nil {
		ps.sol.Send(fmt.Sprintf("(declare-const %s %s)", name, s.SortName()))
		ps.sol.Send(fmt.Sprintf("(assert (= %s %s))", name, s.T))
	}
	ps.Defs = append(ps.Defs, [2]string{name, s.T})
	return Sym{S: s.S, T: name, U: s.U}
}

func (ps *PathState) Record(ev any) { ps.Events = append(ps.Events, ev) }

func (ps *PathState) feasible(term string) bool {
	ps.eng.SolverBranches++
	v, _ := ps.sol.CheckAssuming([]string{term}, nil)
	return v != smt.Unsat
}

// Branch decides a symbolic condition, forking when both sides are feasible.
func (ps *PathState) Branch(c Sym) bool {
	switch c.T {
	case "true":
		return true
	case "false":
		return false
	}
	k := len(ps.decisions)
	choice := -1
	if k < len(ps.prefix) {
		choice = ps.prefix[k]
	} else {
		// Invariant: the path condition is satisfiable, so if one side is
		// infeasible the other is feasible without asking.
		tF := ps.feasible(c.T)
		fF := !tF || ps.feasible(smt.Not(c.T))
		switch {
		case tF && fF:
			choice = 1
			alt := append(ps.choices(), 0)
			ps.newPrefixes = append(ps.newPrefixes, alt)
		case tF:
			choice = 1
		case fF:
			choice = 0
		default:
			panic(pathEnd{"infeasible path condition"})
		}
	}
	ps.decisions = append(ps.decisions, Decision{Arity: 2, Choice: choice, Kind: "branch"})
	if choice == 1 {
		ps.Assume(c.T)
		return true
	}
	ps.Assume(smt.Not(c.T))
	return false
}

// Choice forks n ways on a fresh input without consulting the solver.
func (ps *PathState) Choice(n int, tag string) int {
	if n <= 1 {
		return 0
	}
	k := len(ps.decisions)
	choice := 0
	if k < len(ps.prefix) {
		choice = ps.prefix[k]
	} else {
		ps.eng.mu.Lock()
		ps.eng.FreshForks++
		ps.eng.mu.Unlock()
		base := ps.choices()
		for alt := n - 1; alt >= 1; alt-- {
			p := append(append([]int{}, base...), alt)
			ps.newPrefixes = append(ps.newPrefixes, p)
		}
	}
	ps.decisions = append(ps.decisions, Decision{Arity: n, Choice: choice, Kind: "choice:" + tag})
	if tag == "harness" {
		ps.inputs = append(ps.inputs, Input{Kind: "choice", Choice: choice})
	}
	return choice
}

func (ps *PathState) choices() []int {
	out := make([]int, len(ps.decisions))
	for i, d := range ps.decisions {
		out[i] = d.Choice
	}
	return out
}

// Assert records the obligation pc ∧ ¬cond; obligations are discharged in one
// batched query at the end of the path (flushAsserts), each against the path
// condition as it stood when the assertion was made.
func (ps *PathState) Assert(cond value, id string) {
	s, ok := toSym(cond)
	if !ok {
		panic(unsupported{"verifAssert on non-boolean"})
	}
	if s.T == "true" {
		ps.asserts = append(ps.asserts, AssertResult{ID: id, Verdict: "holds"})
		return
	}
	if s.T == "false" && (ps.sol == nil || len(ps.syms) == 0) {
		// concretely false on a feasible path (paths are only entered when feasible)
		ps.asserts = append(ps.asserts, AssertResult{ID: id, Verdict: "violated", Model: map[string]string{}, PC: append([]string{}, ps.pc...)})
		return
	}
	ps.pending = append(ps.pending, pendingAssert{id: id, term: s.T, npc: len(ps.pc)})
}

func (ps *PathState) symNames() []string {
	names := make([]string, len(ps.syms))
	for i, d := range ps.syms {
		names[i] = d.Name
	}
	return names
}

// flushAsserts discharges the pending obligations. The solver frame holds the
// whole path condition pc[0:n]; an obligation made at pc length m is
// pc[0:m] ∧ ¬a. Since pc only grows, when every obligation was made at the
// final pc (the usual case: assertions at the end of a harness) one query
// pc ∧ ¬(a1 ∧ … ∧ ak) decides all of them; otherwise, and when that query is
// sat, each obligation gets its own query on a fresh frame stack.
func (ps *PathState) flushAsserts() {
	if len(ps.pending) == 0 {
		return
	}
	pend := ps.pending
	ps.pending = nil
	allAtEnd := true
	for _, p := range pend {
		if p.npc != len(ps.pc) {
			allAtEnd = false
		}
	}
	if allAtEnd && len(pend) > 1 {
		var ts []string
		for _, p := range pend {
			ts = append(ts, p.term)
		}
		v, _ := ps.sol.CheckAssuming([]string{smt.Not(smt.And(ts...))}, nil)
		if v == smt.Unsat {
			for _, p := range pend {
				ps.asserts = append(ps.asserts, AssertResult{ID: p.id, Verdict: "holds"})
			}
			return
		}
	}
	for _, p := range pend {
		res := AssertResult{ID: p.id}
		var v smt.Verdict
		var model map[string]string
		if p.npc == len(ps.pc) {
			v, model = ps.sol.CheckAssuming([]string{smt.Not(p.term)}, ps.symNames())
		} else {
			// re-state the shorter path condition: definitions are total, so
			// dropping later pc terms is done by asserting them as a guard.
			v, model = ps.sol.CheckAssumingWeakened(ps.pc[p.npc:], smt.Not(p.term), ps.symNames())
		}
		switch v {
		case smt.Unsat:
			res.Verdict = "holds"
		case smt.Sat:
			res.Verdict = "violated"
			res.Model = model
			res.PC = append([]string{}, ps.pc[:p.npc]...)
		default:
			res.Verdict = "unknown"
		}
		ps.asserts = append(ps.asserts, res)
	}
}

// Run explores every path of fn(args...). mkArgs is called once per path so
// that argument values are rebuilt (they may contain mutable cells).
func (e *Engine) Run(fn *ssa.Function, mkArgs func(ps *PathState) []value, onPath func(ps *PathState, res *PathResult)) []PathResult {
	return e.explore(fn, mkArgs, nil, onPath, e.Workers)
}

// runValue explores the paths of a function value (function or closure)
// sequentially; before is called at the start of every path.
func (e *Engine) runValue(fnv value, fn *ssa.Function, mkArgs func(ps *PathState) []value, before func(ps *PathState), onPath func(ps *PathState, res *PathResult)) []PathResult {
	return e.explore(fnv, mkArgs, before, onPath, 1)
}

func (e *Engine) explore(fn value, mkArgs func(ps *PathState) []value, before func(ps *PathState), onPath func(ps *PathState, res *PathResult), workers int) []PathResult {
	t0 := time.Now()
	defer func() { e.Elapsed += time.Since(t0) }()
	if e.Unsupported == nil {
		e.Unsupported = map[string]int{}
	}
	if e.FuncsRun == nil {
		e.FuncsRun = map[string]bool{}
	}
	if e.MaxSteps == 0 {
		e.MaxSteps = 2_000_000
	}
	if workers < 1 || (e.NewSolver == nil && e.Solver != nil) {
		workers = 1
	}
	var results []PathResult
	work := [][]int{{}}
	inflight := 0
	startPaths := e.Paths
	cond := sync.NewCond(&e.mu)
	var wg sync.WaitGroup
	for w := 0; w < workers; w++ {
		sol := e.Solver
		if e.NewSolver != nil {
			sol = e.NewSolver()
		}
		wg.Add(1)
		go func(sol *smt.Solver) {
			defer wg.Done()
			for {
				e.mu.Lock()
				for len(work) == 0 && inflight > 0 {
					cond.Wait()
				}
				if len(work) == 0 {
					e.mu.Unlock()
					cond.Broadcast()
					return
				}
				if e.MaxPaths > 0 && e.Paths-startPaths >= e.MaxPaths {
					results = append(results, PathResult{Outcome: fmt.Sprintf("unwind: path budget %d exhausted with %d prefixes pending", e.MaxPaths, len(work))})
					e.Unwinds++
					work = nil
					e.mu.Unlock()
					cond.Broadcast()
					return
				}
				prefix := work[len(work)-1]
				work = work[:len(work)-1]
				inflight++
				e.Paths++
				e.mu.Unlock()

				ps := &PathState{eng: e, prefix: prefix, declared: map[string]bool{}, sol: sol}
				if sol != nil {
					sol.Push()
				}
				if before != nil {
					before(ps)
				}
				res := e.runPath(ps, fn, mkArgs)
				if onPath != nil {
					onPath(ps, &res)
				}
				if sol != nil {
					sol.Pop()
				}
				e.mu.Lock()
				results = append(results, res)
				work = append(work, ps.newPrefixes...)
				inflight--
				e.mu.Unlock()
				cond.Broadcast()
			}
		}(sol)
	}
	wg.Wait()
	sort.SliceStable(results, func(i, j int) bool { return lessDecisions(results[i].Decisions, results[j].Decisions) })
	return results
}

func lessDecisions(a, b []Decision) bool {
	for i := 0; i < len(a) && i < len(b); i++ {
		if a[i].Choice != b[i].Choice {
			return a[i].Choice > b[i].Choice
		}
	}
	return len(a) < len(b)
}

func (e *Engine) runPath(ps *PathState, fn value, mkArgs func(ps *PathState) []value) (res PathResult) {
	i := newInterpreter(e, ps)
	ps.interp = i
	res.Outcome = "ok"
	defer func() {
		if p := recover(); p != nil {
			switch p := p.(type) {
			case unsupported:
				res.Outcome = "unsupported: " + p.what
				e.mu.Lock()
				e.Unsupported[p.what]++
				e.mu.Unlock()
			case unwind:
				res.Outcome = "unwind: " + p.what
				e.mu.Lock()
				e.Unwinds++
				e.mu.Unlock()
			case pathEnd:
				res.Outcome = "stopped: " + p.why
			case targetPanic:
				res.Outcome = "panic: " + toString(p.v)
			default:
				res.Outcome = fmt.Sprintf("panic: %v", p)
			}
		}
		ps.flushAsserts()
		res.Decisions = ps.decisions
		res.Asserts = ps.asserts
		res.Reached = ps.reached
		res.Events = ps.Events
		res.Syms = ps.syms
		res.PC = ps.pc
		res.Steps = ps.steps
		res.Inputs = ps.inputs
	}()
	for _, pkg := range e.InitPkgs {
		i.initPkg(pkg)
	}
	var args []value
	if mkArgs != nil {
		args = mkArgs(ps)
	}
	res.Ret = call(i, nil, 0, fn, args)
	return
}

// --- intrinsics ---------------------------------------------------------------

func (ps *PathState) intrinsic(fr *frame, fn *ssa.Function, args []value) (value, bool) {
	switch fn.Name() {
	case "verifNondetBool":
		return ps.Fresh(SBool, "bool"), true
	case "verifNondetInt":
		return ps.Fresh(SInt, "int"), true
	case "verifNondetString":
		return ps.Fresh(SString, "string"), true
	case "verifAssume":
		s, ok := toSym(args[0])
		if !ok {
			panic(unsupported{"verifAssume on non-boolean"})
		}
		if s.T == "false" {
			panic(pathEnd{"assume false"})
		}
		if s.T != "true" {
			if !ps.feasible(s.T) {
				panic(pathEnd{"assumption infeasible"})
			}
			ps.Assume(s.T)
		}
		return nil, true
	case "verifAssert":
		ps.Assert(args[0], args[1].(string))
		return nil, true
	case "verifReach":
		ps.reached = append(ps.reached, args[0].(string))
		return nil, true
	case "verifChoice":
		n := int(asInt64(args[0]))
		return ps.Choice(n, "harness"), true
	case "verifMapOrderFree":
		ps.mapOrderFree = args[0].(bool)
		return nil, true
	case "verifOr", "verifAnd":
		a, ok1 := toSym(args[0])
		b, ok2 := toSym(args[1])
		if !ok1 || !ok2 {
			panic(unsupported{fn.Name() + " on non-boolean"})
		}
		isOr := fn.Name() == "verifOr"
		switch {
		case a.T == "true":
			if isOr {
				return true, true
			}
			return args[1], true
		case a.T == "false":
			if isOr {
				return args[1], true
			}
			return false, true
		case b.T == "true":
			if isOr {
				return true, true
			}
			return args[0], true
		case b.T == "false":
			if isOr {
				return args[0], true
			}
			return false, true
		}
		if isOr {
			return Sym{S: SBool, T: "(or " + a.T + " " + b.T + ")"}, true
		}
		return Sym{S: SBool, T: "(and " + a.T + " " + b.T + ")"}, true
	case "verifLog":
		lv := args[1]
		if i, ok := lv.(iface); ok {
			lv = i.v
		}
		ps.Record(LogEvent{Tag: args[0].(string), Val: lv})
		return nil, true
	case "verifIsIdent":
		return identPredicate(args[0], args[1].(bool), int(asInt64(args[2]))), true
	case "verifMakeType":
		return iface{t: tokType, v: args[0]}, true
	case "verifConcretize":
		// returns its argument; present so harnesses can mark a value
		return args[0], true
	}
	return nil, false
}

// perm returns the visiting order for n map entries.
func (ps *PathState) perm(n int) []int {
	out := make([]int, n)
	for i := range out {
		out[i] = i
	}
	if !ps.mapOrderFree || n < 2 {
		return out
	}
	// selection: choose the next element among the remaining ones
	rem := append([]int{}, out...)
	out = out[:0]
	for len(rem) > 0 {
		c := ps.Choice(len(rem), "maporder")
		out = append(out, rem[c])
		rem = append(rem[:c], rem[c+1:]...)
	}
	return out
}

// --- helpers for results --------------------------------------------------------

func SummarizeOutcomes(rs []PathResult) map[string]int {
	m := map[string]int{}
	for _, r := range rs {
		o := r.Outcome
		if i := strings.Index(o, ":"); i > 0 {
			o = o[:i]
		}
		m[o]++
	}
	return m
}

func SortedKeys(m map[string]int) []string {
	ks := make([]string, 0, len(m))
	for k := range m {
		ks = append(ks, k)
	}
	sort.Strings(ks)
	return ks
}

// pkgOf returns the package path a function belongs to ("" if none).
func pkgOf(fn *ssa.Function) string {
	if fn.Pkg != nil {
		return fn.Pkg.Pkg.Path()
	}
	if o := fn.Origin(); o != nil && o.Pkg != nil {
		return o.Pkg.Pkg.Path()
	}
	if fn.Parent() != nil {
		return pkgOf(fn.Parent())
	}
	if obj := fn.Object(); obj != nil && obj.Pkg() != nil {
		return obj.Pkg().Path()
	}
	return ""
}

func mustDeref(t types.Type) types.Type {
	if p, ok := t.Underlying().(*types.Pointer); ok {
		return p.Elem()
	}
	panic(fmt.Sprintf("mustDeref: %s is not a pointer", t))
}

// LogEvent is recorded by verifLog.
type LogEvent struct {
	Tag string
	Val value
}

var tokType = newOpaqueNamed("verif.TypeToken")

// Declined is returned by an intercept that does not want to handle the call.
type Declined struct{}

func identPredicate(v value, lowerFirst bool, maxLen int) value {
	s, ok := v.(Sym)
	if !ok {
		str := v.(string)
		if len(str) == 0 || len(str) > maxLen {
			return false
		}
		for i := 0; i < len(str); i++ {
			c := str[i]
			lower := c >= 'a' && c <= 'z' || c == '_'
			upper := c >= 'A' && c <= 'Z'
			digit := c >= '0' && c <= '9'
			if i == 0 && lowerFirst && !lower {
				return false
			}
			if i == 0 && !lower && !upper {
				return false
			}
			if !lower && !upper && !digit {
				return false
			}
		}
		return true
	}
	lower := `(re.union (re.range "a" "z") (str.to_re "_"))`
	upper := `(re.range "A" "Z")`
	digit := `(re.range "0" "9")`
	first := lower
	if !lowerFirst {
		first = "(re.union " + lower + " " + upper + ")"
	}
	rest := "(re.* (re.union " + lower + " " + upper + " " + digit + "))"
	t := fmt.Sprintf("(and (<= (str.len %s) %d) (str.in_re %s (re.++ %s %s)))", s.T, maxLen, s.T, first, rest)
	return Sym{S: SBool, T: t}
}

// Script turns the inputs of a path plus a model into a replay script.
func Script(inputs []Input, model map[string]string) []any {
	var out []any
	for _, in := range inputs {
		if in.Kind == "choice" {
			out = append(out, in.Choice)
			continue
		}
		mv := model[in.Name]
		switch in.Sort {
		case "Bool":
			out = append(out, mv == "true")
		case "Int":
			n, _ := smt.ParseIntLit(mv)
			out = append(out, n)
		case "String":
			s, _ := smt.ParseStrLit(mv)
			out = append(out, s)
		default:
			out = append(out, mv)
		}
	}
	return out
}

// Conc helpers for clients outside the package.
func ValueString(v value) string { return toString(v) }
func MkSlice(vs ...value) value  { return append([]value{}, vs...) }
