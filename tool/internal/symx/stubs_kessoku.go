package symx

import "golang.org/x/tools/go/ssa"

const kessokuInternal = "github.com/mazrean/kessoku/internal/kessoku"

// InstallKessokuStubs installs the harness-side stubs for internal/kessoku.
func InstallKessokuStubs(e *Engine) {
	// getBaseName of a harness type token is the token's base name; real
	// types fall through to the real code.
	e.Intercepts["(*"+kessokuInternal+".VarPool).getBaseName"] = func(ps *PathState, fr *frame, fn *ssa.Function, args []value) value {
		if i, ok := args[1].(iface); ok && i.t == tokType {
			return i.v
		}
		return Declined{}
	}
}

// Arg constructors for harness entry points.
func IntArg(n int) value { return n }
func StringSliceArg(ss []string) value {
	if ss == nil {
		return []value(nil)
	}
	out := make([]value, len(ss))
	for i, s := range ss {
		out[i] = s
	}
	return out
}

// ImportOrderEvent is recorded by the format.Node stub: the import paths of
// the generated file in the order they would be printed.
type ImportOrderEvent struct{ Paths []value }

// InstallFormatStub records the import block instead of printing the file.
func InstallFormatStub(e *Engine) {
	e.Intercepts["go/format.Node"] = func(ps *PathState, fr *frame, fn *ssa.Function, args []value) value {
		// args: dst io.Writer, fset *token.FileSet, node any (boxed *ast.File)
		node, _ := args[2].(iface)
		var paths []value
		if fp, ok := node.v.(*value); ok && fp != nil {
			file := (*fp).(structure)
			// ast.File fields: Doc, Package, Name, Decls, ...; find the []Decl field
			for _, fld := range file {
				decls, ok := fld.([]value)
				if !ok {
					continue
				}
				for _, d := range decls {
					di, ok := d.(iface)
					if !ok || di.t == nil || di.t.String() != "*go/ast.GenDecl" {
						continue
					}
					gd := (*(di.v.(*value))).(structure)
					for _, gf := range gd {
						specs, ok := gf.([]value)
						if !ok {
							continue
						}
						for _, sp := range specs {
							si, ok := sp.(iface)
							if !ok || si.t == nil || si.t.String() != "*go/ast.ImportSpec" {
								continue
							}
							is := (*(si.v.(*value))).(structure)
							// ImportSpec{Doc, Name, Path *BasicLit, Comment, EndPos}
							if bl, ok := is[2].(*value); ok && bl != nil {
								lit := (*bl).(structure)
								paths = append(paths, lit[2]) // BasicLit{ValuePos, Kind, Value}
							}
						}
					}
				}
				break
			}
		}
		ps.Record(ImportOrderEvent{Paths: paths})
		return iface{}
	}
	e.Intercepts["strconv.Quote"] = func(ps *PathState, fr *frame, fn *ssa.Function, args []value) value {
		if s, ok := args[0].(string); ok {
			return "\"" + s + "\""
		}
		sy := args[0].(Sym)
		return Sym{S: SString, T: "(str.++ \"\\u{22}\" " + sy.T + " \"\\u{22}\")"}
	}
}

// SameValues compares two value lists term-wise; it returns the SMT
// disequality to be refuted when symbolic, or decides concretely.
func SameValues(a, b []value) (concreteEqual bool, neq string) {
	if len(a) != len(b) {
		return false, ""
	}
	var ts []string
	for i := range a {
		x, ok1 := toSym(a[i])
		y, ok2 := toSym(b[i])
		if !ok1 || !ok2 {
			return false, ""
		}
		if x.T != y.T {
			ts = append(ts, "(not (= "+x.T+" "+y.T+"))")
		}
	}
	if len(ts) == 0 {
		return true, ""
	}
	if len(ts) == 1 {
		return false, ts[0]
	}
	neq = "(or"
	for _, t := range ts {
		neq += " " + t
	}
	return false, neq + ")"
}
