package symx

import "golang.org/x/tools/go/ssa"

const kessokuInternal = "github.com/mazrean/kessoku/internal/kessoku"

// InstallKessokuStubs installs the harness-side stubs for internal/kessoku.
func InstallKessokuStubs(e *Engine) {
	// getBaseName of a harness type token is the token's base name; real
	// types fall through to the real code.
	e.Intercepts["(*"+kessokuInternal+".VarPool).getBaseName"] = func(ps *PathState, fr *frame, fn *ssa.Function, args []value) value {
		if i, ok := args[1].(iface); ok && i.t == tokType {
			return i.v
		}
		return Declined{}
	}
}

// Arg constructors for harness entry points.
func IntArg(n int) value { return n }
func StringSliceArg(ss []string) value {
	if ss == nil {
		return []value(nil)
	}
	out := make([]value, len(ss))
	for i, s := range ss {
		out[i] = s
	}
	return out
}
