package symx

import (
	"fmt"
	"go/token"
	"go/types"
	"strings"

	"golang.org/x/tools/go/ssa"
)

// hostFn is a function value implemented by the host (method of a stub type).
type hostFn func(fr *frame, args []value) value

// hostTypes maps the dynamic type of special interface values (symbolic
// errors, contexts, files …) to their method tables.
var hostTypes = map[types.Type]func(recv iface, name string) hostFn{}

func hostMethod(recv iface, meth *types.Func) hostFn {
	if tbl, ok := hostTypes[recv.t]; ok {
		if f := tbl(recv, meth.Name()); f != nil {
			return f
		}
		panic(unsupported{fmt.Sprintf("method %s of stub type %s", meth.Name(), recv.t)})
	}
	return nil
}

func newOpaqueNamed(name string) *types.Named {
	return types.NewNamed(types.NewTypeName(token.NoPos, nil, name, nil), types.NewStruct(nil, nil), nil)
}

// symBinop extends binop to symbolic operands.
func symBinop(op token.Token, t types.Type, x, y value) value {
	sx, xs := x.(Sym)
	sy, ys := y.(Sym)
	if !xs && !ys {
		return binop(op, t, x, y)
	}
	if !xs {
		var ok bool
		if sx, ok = toSym(x); !ok {
			panic(unsupported{fmt.Sprintf("binary %s on %T and symbolic value", op, x)})
		}
	}
	if !ys {
		var ok bool
		if sy, ok = toSym(y); !ok {
			panic(unsupported{fmt.Sprintf("binary %s on symbolic value and %T", op, y)})
		}
	}
	if sx.S != sy.S {
		panic(unsupported{fmt.Sprintf("binary %s on sorts %s and %s", op, sx.SortName(), sy.SortName())})
	}
	b := func(f string) Sym { return Sym{S: SBool, T: "(" + f + " " + sx.T + " " + sy.T + ")"} }
	switch op {
	case token.EQL:
		return b("=")
	case token.NEQ:
		return Sym{S: SBool, T: "(not (= " + sx.T + " " + sy.T + "))"}
	}
	switch sx.S {
	case SInt:
		// Mathematical integers: the kernels executed here do counter and
		// length arithmetic far from the word size; stated in evidence.
		a := func(f string) Sym { return Sym{S: SInt, T: "(" + f + " " + sx.T + " " + sy.T + ")"} }
		switch op {
		case token.ADD:
			return a("+")
		case token.SUB:
			return a("-")
		case token.MUL:
			if xs && ys {
				panic(unsupported{"symbolic * symbolic"})
			}
			return a("*")
		case token.LSS:
			return b("<")
		case token.LEQ:
			return b("<=")
		case token.GTR:
			return b(">")
		case token.GEQ:
			return b(">=")
		case token.REM:
			if !ys {
				return a("mod") // non-negative operands assumed; callers assume so
			}
		}
	case SString:
		switch op {
		case token.ADD:
			return Sym{S: SString, T: "(str.++ " + sx.T + " " + sy.T + ")"}
		case token.LSS:
			return b("str.<")
		case token.LEQ:
			return b("str.<=")
		case token.GTR:
			return Sym{S: SBool, T: "(str.< " + sy.T + " " + sx.T + ")"}
		case token.GEQ:
			return Sym{S: SBool, T: "(str.<= " + sy.T + " " + sx.T + ")"}
		}
	case SBool:
		switch op {
		case token.AND, token.LAND:
			return b("and")
		case token.OR, token.LOR:
			return b("or")
		}
	}
	panic(unsupported{fmt.Sprintf("binary %s on symbolic %s", op, sx.SortName())})
}

func symConv(tDst, tSrc types.Type, s Sym) value {
	ud := tDst.Underlying()
	switch d := ud.(type) {
	case *types.Basic:
		switch {
		case d.Info()&types.IsInteger != 0 && s.S == SInt:
			return s
		case d.Info()&types.IsString != 0 && s.S == SString:
			return s
		case d.Info()&types.IsBoolean != 0 && s.S == SBool:
			return s
		}
	}
	panic(unsupported{fmt.Sprintf("conversion of symbolic %s from %s to %s", s.SortName(), tSrc, tDst)})
}

// dispatch is consulted before any function body is interpreted.
func (i *interpreter) dispatch(fr *frame, fn *ssa.Function, args []value) (value, bool) {
	e := i.eng
	if strings.HasPrefix(fn.Name(), "verif") {
		if v, ok := i.ps.intrinsic(fr, fn, args); ok {
			return v, true
		}
	}
	name := fn.String()
	if ic := e.Intercepts[name]; ic != nil {
		if v := ic(i.ps, fr, fn, args); v != (Declined{}) {
			return v, true
		}
	} else if o := fn.Origin(); o != nil {
		if ic := e.Intercepts[o.String()]; ic != nil {
			if v := ic(i.ps, fr, fn, args); v != (Declined{}) {
				return v, true
			}
		}
	}
	if fn.Synthetic == "package initializer" && fn.Pkg != nil {
		if i.inited[fn.Pkg] {
			return nil, false // being run by initPkg / lazyInit
		}
		if e.EagerInit != nil && e.EagerInit(fn.Pkg.Pkg.Path()) {
			i.inited[fn.Pkg] = true
			return nil, false
		}
		// Other packages are initialised lazily, when one of their globals is
		// first read (allow-listed ones) or never (lazyInit refuses the read).
		return nil, true
	}
	if e.OpaqueCall != nil {
		if v, ok := e.OpaqueCall(i.ps, fr, fn, args); ok {
			return v, true
		}
	}
	if path := pkgOf(fn); path != "" && e.AllowPkg != nil && !e.AllowPkg(path) {
		if fn.Parent() == nil && externals[name] != nil {
			return nil, false
		}
		panic(unsupported{"call of " + name})
	}
	if fn.Blocks != nil {
		e.mu.Lock()
		e.FuncsRun[name] = true
		e.mu.Unlock()
	}
	return nil, false
}
