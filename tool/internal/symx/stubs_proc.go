package symx

import (
	"fmt"

	"golang.org/x/tools/go/ssa"
)

// ProcEvent records what the processing pipeline did on one path (C09).
type ProcEvent struct {
	Op   string // parse, parse-error, create-injector, create-injector-error, os.Create, os.Create-error, generate, generate-error, exit
	File string
	N    int
}

// InstallProcessorStubs replaces the parser, graph construction, generation
// and file creation under Processor.processFile by nondeterministic stubs:
// ParseFile yields 0..maxBuilds directives or fails, CreateInjector, os.Create
// and Generate each fail or succeed. The failing position is a free choice.
func InstallProcessorStubs(e *Engine, maxBuilds int) {
	rec := func(ps *PathState, ev ProcEvent) { ps.Record(ev) }
	ic := e.Intercepts
	ic["(*"+kessokuInternal+".Parser).ParseFile"] = func(ps *PathState, fr *frame, fn *ssa.Function, args []value) value {
		file := args[1].(string)
		c := ps.Choice(maxBuilds+2, "parse")
		if c == maxBuilds+1 {
			rec(ps, ProcEvent{Op: "parse-error", File: file})
			return tuple{(*value)(nil), []value(nil), NewErr("stub", "parse:"+file, "parse error", nil)}
		}
		rec(ps, ProcEvent{Op: "parse", File: file, N: c})
		builds := make([]value, c)
		for i := range builds {
			var cell value = structure{}
			builds[i] = &cell
		}
		var md value = structure{}
		return tuple{&md, builds, iface{}}
	}
	ic[kessokuInternal+".CreateInjector"] = func(ps *PathState, fr *frame, fn *ssa.Function, args []value) value {
		if ps.Choice(2, "createInjector") == 1 {
			rec(ps, ProcEvent{Op: "create-injector-error"})
			return tuple{(*value)(nil), NewErr("stub", "createInjector", "graph refused", nil)}
		}
		rec(ps, ProcEvent{Op: "create-injector"})
		var inj value = structure{}
		return tuple{&inj, iface{}}
	}
	ic["os.Create"] = func(ps *PathState, fr *frame, fn *ssa.Function, args []value) value {
		name := fmt.Sprint(args[0])
		if ps.Choice(2, "osCreate") == 1 {
			rec(ps, ProcEvent{Op: "os.Create-error", File: name})
			return tuple{(*fileObj)(nil), NewErr("stub", "os.Create", "permission denied", nil)}
		}
		rec(ps, ProcEvent{Op: "os.Create", File: name})
		return tuple{&fileObj{name: name}, iface{}}
	}
	ic["os.OpenFile"] = ic["os.Create"]
	ic["os.WriteFile"] = func(ps *PathState, fr *frame, fn *ssa.Function, args []value) value {
		rec(ps, ProcEvent{Op: "os.Create", File: fmt.Sprint(args[0])})
		return iface{}
	}
	ic["(*os.File).Close"] = func(ps *PathState, fr *frame, fn *ssa.Function, args []value) value { return iface{} }
	ic[kessokuInternal+".Generate"] = func(ps *PathState, fr *frame, fn *ssa.Function, args []value) value {
		if ps.Choice(2, "generate") == 1 {
			rec(ps, ProcEvent{Op: "generate-error"})
			return NewErr("stub", "generate", "format error", nil)
		}
		rec(ps, ProcEvent{Op: "generate"})
		return iface{}
	}
	ic["path/filepath.Ext"] = func(ps *PathState, fr *frame, fn *ssa.Function, args []value) value {
		s := args[0].(string)
		for i := len(s) - 1; i >= 0 && s[i] != '/'; i-- {
			if s[i] == '.' {
				return s[i:]
			}
		}
		return ""
	}
}

// InstallMainStubs: config.Run fails or not; os.Exit is recorded and ends the path.
func InstallMainStubs(e *Engine) {
	e.Intercepts["github.com/mazrean/kessoku/internal/config.Run"] = func(ps *PathState, fr *frame, fn *ssa.Function, args []value) value {
		if ps.Choice(2, "run") == 1 {
			ps.Record(ProcEvent{Op: "run-error"})
			return NewErr("stub", "run", "generation failed", nil)
		}
		ps.Record(ProcEvent{Op: "run-ok"})
		return iface{}
	}
	e.Intercepts["os.Exit"] = func(ps *PathState, fr *frame, fn *ssa.Function, args []value) value {
		ps.Record(ProcEvent{Op: "exit", N: int(asInt64(args[0]))})
		panic(pathEnd{"os.Exit"})
	}
}
