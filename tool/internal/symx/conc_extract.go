package symx

// Extraction of the event structure of a generated injector (DESIGN §3.2).
// The injector and each closure it hands to errgroup.Group.Go are executed
// symbolically in "thread mode": provider calls, channel operations, shared
// variable accesses, Go/Wait and returns are recorded as events instead of
// being executed; provider failure, select choice and Wait's result fork.

import (
	"fmt"
	"go/token"
	"go/types"
	"strings"

	"golang.org/x/tools/go/ssa"
	"kverif/internal/smt"
)

type ChanRef struct {
	Kind string // "chan" or "done"
	ID   string // channel name, or "parent"/"derived" for a context's Done channel
}

type CEvent struct {
	Kind     string // spawn enter exit rd wr close recv sel wait ret return
	Thread   int
	Pos      int
	Key      string // unique per (thread, decisions so far, pos)
	Prov     string // provider symbol
	CallKey  string // key of the enter event of this call
	Args     []string
	Outs     []string
	Fallible bool
	Failed   bool
	Cell     string
	Val      string
	Chan     ChanRef
	Chans    []ChanRef
	Choice   int
	Spawned  int
	Err      string
	Ret      string
	HasErr   bool   // return: the function has an error result
	Line     int    // source line of a blocking operation (recv, sel, wait) in the generated file
	Site     string // structural description of the site, for finding signatures
	Decision bool   // this event consumed a decision (its outcome is in Choice/Failed)
}

type CPath struct {
	Thread    int
	Events    []CEvent
	Outcome   string
	Decisions []Decision
}

type CThread struct {
	ID    int
	Name  string
	Paths []CPath
}

type CProgram struct {
	Func        string
	Threads     []*CThread
	Cells       []string
	Chans       []string
	Unsupported []string
	HasErrRes   bool
	NParams     int
	ParamTerms  []string
	Provs       map[string]int // provider symbol -> arity
	Flds        map[string]bool
	// ExtraOuts: result functions of providers the reference speaks of although no path of the
	// generated code calls them.
	ExtraOuts []ExtraOut
	// LimitSet/Limit: errgroup.SetLimit(n) was called before any eg.Go (n >= 0).
	LimitSet bool
	Limit    int
}

type ExtraOut struct {
	Prov           string
	Results, Arity int
}

type ctxObj struct {
	name string
	x    *Extractor // set by the injector extractor: Err() is then an observable probe
}
type chanObj struct{ id string }
type doneChan struct{ ctx *ctxObj }
type egObj struct{}

var symCtxType = newOpaqueNamed("verif.Context")

func init() {
	hostTypes[symCtxType] = func(recv iface, name string) hostFn {
		c := recv.v.(*ctxObj)
		switch name {
		case "Done":
			return func(fr *frame, args []value) value { return &doneChan{ctx: c} }
		case "Err":
			return func(fr *frame, args []value) value {
				nonNil := NewErr("ctxerr", "ctxerr:"+c.name, "context canceled", nil)
				x := c.x
				if x == nil || x.cur == nil {
					return nonNil
				}
				// right after a select that left through this context's Done(), Err() is non-nil
				if ls := x.cur.lastSel; ls != nil && ls.Pos == len(x.cur.events)-1 && ls.Chans[ls.Choice].Kind == "done" && ls.Chans[ls.Choice].ID == c.name {
					return nonNil
				}
				// anywhere else it is a probe: non-nil exactly if the context is done by now
				ps := fr.i.ps
				ev := x.rec(ps, CEvent{Kind: "probe", Chans: []ChanRef{{Kind: "done", ID: c.name}}, Decision: true, Site: x.siteOf() + ":ctx-err-probe", Line: x.lineOf(fr.i.callpos)})
				ch := ps.Choice(2, "probe")
				ev.Choice = ch
				if ch == 0 {
					return iface{}
				}
				return nonNil
			}
		}
		return nil
	}
}

// Extractor holds the state shared by all paths of one injector.
// ExtractOptions tune the extractor for sequential code (C13).
type ExtractOptions struct {
	// Sequential: no goroutines expected; local aggregates are built
	// concretely (no shared-cell tracking) and function literals are
	// interpreted, so that struct literals become constructor terms.
	Sequential bool
	// IsUserPkg reports packages whose functions are opaque providers.
	IsUserPkg func(path string) bool
}

type Extractor struct {
	Opt      ExtractOptions
	E        *Engine
	Pkg      *ssa.Package
	F        *ssa.Function
	cells    map[*value]string
	cellIDs  map[*ssa.Alloc]string
	chanIDs  map[*ssa.MakeChan]string
	spawnFns map[int]value // thread id -> closure value (from the first path that reached the spawn)
	spawnIdx map[*ssa.Function]int
	prog     *CProgram
	cur      *concPath
}

type concPath struct {
	thread  int
	entry   *ssa.Function
	events  []CEvent
	nval    int
	lastSel *CEvent
}

func vsym(t string) Sym { return Sym{S: SOther, U: "V", T: t} }

func isInfraType(t types.Type) bool {
	switch u := t.Underlying().(type) {
	case *types.Chan:
		return true
	case *types.Array:
		return isInfraType(u.Elem())
	case *types.Slice:
		return isInfraType(u.Elem())
	case *types.Pointer:
		if n, ok := u.Elem().(*types.Named); ok && n.Obj().Pkg() != nil && n.Obj().Pkg().Path() == "golang.org/x/sync/errgroup" {
			return true
		}
	}
	if n, ok := t.(*types.Named); ok && n.Obj().Pkg() != nil {
		switch n.Obj().Pkg().Path() + "." + n.Obj().Name() {
		case "context.Context", "golang.org/x/sync/errgroup.Group":
			return true
		}
	}
	if t.String() == "error" {
		return true
	}
	return false
}

// toV converts an interpreter value to a term of sort V.
func toV(v value) string {
	switch x := v.(type) {
	case Sym:
		if x.S == SOther && x.U == "V" {
			return x.T
		}
		switch x.S {
		case SString:
			return "(litS " + x.T + ")"
		case SInt:
			return "(litI " + x.T + ")"
		case SBool:
			return "(litB " + x.T + ")"
		}
	case iface:
		if x.t == nil {
			return "ZEROV"
		}
		if x.t == symCtxType {
			return "in_ctx"
		}
		return toV(x.v)
	case *value:
		if x == nil {
			return "ZEROV"
		}
	case string:
		return "(litS " + smt.StrLit(x) + ")"
	case bool:
		if x {
			return "(litB true)"
		}
		return "(litB false)"
	case int, int8, int16, int32, int64, uint, uint8, uint16, uint32, uint64:
		return "(litI " + smt.IntLit(asInt64(x)) + ")"
	case structure:
		return "ZEROV"
	case *fieldRef:
		return x.term()
	}
	panic(unsupported{fmt.Sprintf("value of type %T as a provided value", v)})
}

func errTerm(v value) string {
	i, ok := v.(iface)
	if !ok {
		panic(unsupported{fmt.Sprintf("error value of type %T", v)})
	}
	if i.t == nil {
		return "Nil"
	}
	if e, ok := i.v.(*symErr); ok {
		switch e.Kind {
		case "prov":
			return "(Prov " + e.ID + ")"
		case "ctxerr":
			return "CtxErr"
		case "wait":
			return e.ID
		}
	}
	panic(unsupported{"error value not produced by a provider, ctx.Err or Wait"})
}

type fieldRef struct {
	base  string
	sname string
	fname string
}

func (f *fieldRef) term() string {
	return "(fld_" + f.sname + "_" + f.fname + " " + f.base + ")"
}

func qualNone(*types.Package) string { return "" }

func sanitize(s string) string {
	var sb strings.Builder
	for _, c := range s {
		switch {
		case c >= 'a' && c <= 'z', c >= 'A' && c <= 'Z', c >= '0' && c <= '9':
			sb.WriteRune(c)
		case c == '*':
			sb.WriteString("p")
		default:
			sb.WriteString("_")
		}
	}
	return sb.String()
}

func (x *Extractor) key(ps *PathState, pos int) string {
	var sb strings.Builder
	fmt.Fprintf(&sb, "t%d", x.cur.thread)
	for _, c := range ps.choices() {
		fmt.Fprintf(&sb, "_%d", c)
	}
	fmt.Fprintf(&sb, "p%d", pos)
	return sb.String()
}

func (x *Extractor) rec(ps *PathState, ev CEvent) *CEvent {
	ev.Thread = x.cur.thread
	ev.Pos = len(x.cur.events)
	ev.Key = x.key(ps, ev.Pos)
	x.cur.events = append(x.cur.events, ev)
	return &x.cur.events[len(x.cur.events)-1]
}

func (x *Extractor) lineOf(pos token.Pos) int {
	if !pos.IsValid() {
		return 0
	}
	return x.E.Prog.Fset.Position(pos).Line
}

func (x *Extractor) chanRef(v value) ChanRef {
	switch c := v.(type) {
	case *chanObj:
		return ChanRef{Kind: "chan", ID: c.id}
	case *doneChan:
		return ChanRef{Kind: "done", ID: c.ctx.name}
	}
	panic(unsupported{fmt.Sprintf("channel operand of type %T", v)})
}

func inCorpusPkg(fn *ssa.Function, pkg *ssa.Package) bool {
	for f := fn; f != nil; f = f.Parent() {
		if f.Pkg == pkg {
			return true
		}
		if f.Pkg != nil {
			return false
		}
	}
	return false
}

func (x *Extractor) provSym(fn *ssa.Function) string {
	if fn.Parent() == nil && fn.Synthetic == "" {
		if fn.Pkg != nil && fn.Pkg != x.Pkg {
			return fn.Pkg.Pkg.Name() + "_" + fn.Name()
		}
		return fn.Name()
	}
	return "lit_" + sanitize(types.TypeString(fn.Signature, qualNone))
}

// siteOf describes where in the generated code an event sits, structurally.
func (x *Extractor) siteOf() string {
	if x.cur.thread == 0 {
		return "main"
	}
	return "goroutine"
}

func (x *Extractor) install() {
	e := x.E
	e.Hooks = &Hooks{
		MakeChan: func(ps *PathState, fr *frame, instr *ssa.MakeChan) (value, bool) {
			id, ok := x.chanIDs[instr]
			if !ok {
				id = fmt.Sprintf("ch%d", len(x.chanIDs))
				x.chanIDs[instr] = id
				x.prog.Chans = append(x.prog.Chans, id)
			}
			return &chanObj{id: id}, true
		},
		Recv: func(ps *PathState, fr *frame, instr *ssa.UnOp, ch value) (value, bool) {
			x.rec(ps, CEvent{Kind: "recv", Chan: x.chanRef(ch), Site: x.siteOf() + ":plain-receive", Line: x.lineOf(instr.Pos())})
			z := zero(instr.X.Type().Underlying().(*types.Chan).Elem())
			if instr.CommaOk {
				return tuple{z, false}, true
			}
			return z, true
		},
		Select: func(ps *PathState, fr *frame, instr *ssa.Select) (value, bool) {
			if !instr.Blocking {
				panic(unsupported{"non-blocking select"})
			}
			var chans []ChanRef
			for _, st := range instr.States {
				if st.Dir != types.RecvOnly {
					panic(unsupported{"send case in select"})
				}
				chans = append(chans, x.chanRef(fr.get(st.Chan)))
			}
			watch := "nothing"
			for _, ch := range chans {
				if ch.Kind == "done" {
					watch = ch.ID + "-ctx"
				}
			}
			ev := x.rec(ps, CEvent{Kind: "sel", Chans: chans, Decision: true, Site: x.siteOf() + ":select-watching-" + watch, Line: x.lineOf(instr.Pos())})
			c := ps.Choice(len(chans), "sel")
			ev.Choice = c
			x.cur.lastSel = ev
			r := tuple{c, false}
			for _, st := range instr.States {
				r = append(r, zero(st.Chan.Type().Underlying().(*types.Chan).Elem()))
			}
			return r, true
		},
		Close: func(ps *PathState, fr *frame, ch value) bool {
			x.rec(ps, CEvent{Kind: "close", Chan: x.chanRef(ch), Site: x.siteOf()})
			return true
		},
		Load: func(ps *PathState, fr *frame, instr *ssa.UnOp, addr value) (value, bool) {
			if f, ok := addr.(*fieldRef); ok {
				return vsym(f.term()), true
			}
			pa, ok := addr.(*value)
			if !ok || pa == nil {
				return nil, false
			}
			name, ok := x.cells[pa]
			if !ok || isInfraType(mustDeref(instr.X.Type())) {
				return nil, false
			}
			x.cur.nval++
			ev := x.rec(ps, CEvent{Kind: "rd", Cell: name})
			ev.Val = "val_" + ev.Key
			return vsym(ev.Val), true
		},
		Store: func(ps *PathState, fr *frame, instr *ssa.Store, addr value, v value) bool {
			pa, ok := addr.(*value)
			if !ok || pa == nil {
				return false
			}
			name, ok := x.cells[pa]
			if !ok {
				return false
			}
			if isInfraType(mustDeref(instr.Addr.Type())) {
				if len(x.spawnFns) > 0 && x.cur.thread == 0 && x.spawnedOnPath() {
					panic(unsupported{"write to a channel/context/group variable after a goroutine was started"})
				}
				if x.cur.thread != 0 {
					panic(unsupported{"write to a channel/context/group variable inside a goroutine"})
				}
				return false
			}
			x.rec(ps, CEvent{Kind: "wr", Cell: name, Val: toV(v)})
			return true
		},
		Field: func(ps *PathState, fr *frame, instr ssa.Instruction, xv value, field int) (value, bool) {
			s, ok := xv.(Sym)
			if !ok || s.U != "V" {
				return nil, false
			}
			var st *types.Struct
			var tn string
			switch in := instr.(type) {
			case *ssa.FieldAddr:
				t := mustDeref(in.X.Type())
				st = t.Underlying().(*types.Struct)
				tn = types.TypeString(t, qualNone)
			case *ssa.Field:
				st = in.X.Type().Underlying().(*types.Struct)
				tn = types.TypeString(in.X.Type(), qualNone)
			}
			fr2 := &fieldRef{base: s.T, sname: sanitize(tn), fname: st.Field(field).Name()}
			x.prog.Flds["fld_"+fr2.sname+"_"+fr2.fname] = true
			if _, isAddr := instr.(*ssa.FieldAddr); isAddr {
				return fr2, true
			}
			return vsym(fr2.term()), true
		},
		Return: func(ps *PathState, fr *frame, instr *ssa.Return) {
			if fr.caller != nil || fr.fn != x.cur.entry {
				return
			}
			var vals []value
			for _, r := range instr.Results {
				vals = append(vals, fr.get(r))
			}
			if x.cur.thread == 0 {
				ev := CEvent{Kind: "return", Err: "Nil", Ret: "NONE", HasErr: x.prog.HasErrRes, Site: x.returnSite()}
				if len(vals) > 0 {
					ev.Ret = toVT(vals[0], fr.fn.Signature.Results().At(0).Type())
				}
				if x.prog.HasErrRes {
					ev.Err = errTerm(vals[len(vals)-1])
				}
				x.rec(ps, ev)
				return
			}
			ev := CEvent{Kind: "ret", Err: "Nil", Site: x.returnSite()}
			if len(vals) == 1 {
				ev.Err = errTerm(vals[0])
			}
			x.rec(ps, ev)
		},
	}
	e.Hooks.MakeChan = e.Hooks.MakeChan
	e.AllocHook = func(ps *PathState, fr *frame, instr *ssa.Alloc, addr *value) {
		if !instr.Heap || fr.fn != x.F || x.Opt.Sequential {
			return
		}
		id, ok := x.cellIDs[instr]
		if !ok {
			id = fmt.Sprintf("c%d_%s", len(x.cellIDs), sanitize(instr.Comment))
			x.cellIDs[instr] = id
			if !isInfraType(mustDeref(instr.Type())) {
				x.prog.Cells = append(x.prog.Cells, id)
			}
		}
		x.cells[addr] = id
	}
	e.OpaqueCall = func(ps *PathState, fr *frame, fn *ssa.Function, args []value) (value, bool) {
		user := inCorpusPkg(fn, x.Pkg)
		if !user && x.Opt.IsUserPkg != nil {
			user = x.Opt.IsUserPkg(pkgOf(fn))
		}
		if fn == x.cur.entry || !user || strings.HasPrefix(fn.Name(), "verif") {
			return nil, false
		}
		if x.Opt.Sequential && fn.Parent() != nil {
			return nil, false // function literals are interpreted
		}
		if fn.Name() == "init" || strings.HasPrefix(fn.Name(), "init#") {
			return nil, false
		}
		if fn.Synthetic != "" && fn.Synthetic != "bound method wrapper" {
			return nil, false // wrappers/thunks are interpreted down to the real callee
		}
		sym := x.provSym(fn)
		var at []string
		for i, a := range args {
			var pt types.Type
			if i < fn.Signature.Params().Len() {
				pt = fn.Signature.Params().At(i).Type()
			}
			at = append(at, toVT(a, pt))
		}
		// closures capture free variables: not produced by the generator for providers
		res := fn.Signature.Results()
		fallible := res.Len() > 0 && types.Unalias(res.At(res.Len()-1).Type()).String() == "error"
		nres := res.Len()
		if fallible {
			nres--
		}
		x.prog.Provs[sym] = len(at)
		en := x.rec(ps, CEvent{Kind: "enter", Prov: sym, Args: at, Fallible: fallible, Site: x.siteOf()})
		callKey := en.Key
		ex := x.rec(ps, CEvent{Kind: "exit", Prov: sym, CallKey: callKey, Fallible: fallible, Decision: fallible, Site: x.siteOf()})
		failed := false
		if fallible {
			failed = ps.Choice(2, "fail") == 1
		}
		var outs []string
		var vals tuple
		for i := 0; i < nres; i++ {
			t := "out_" + sym + "_" + fmt.Sprint(i)
			if len(at) > 0 {
				t = "(" + t + " " + strings.Join(at, " ") + ")"
			}
			if failed {
				t = "ZEROV"
			}
			outs = append(outs, t)
			vals = append(vals, vsym(t))
		}
		ex.Outs = outs
		ex.Failed = failed
		if fallible {
			if failed {
				vals = append(vals, NewErr("prov", callKey, "provider error", nil))
			} else {
				vals = append(vals, iface{})
			}
		}
		switch len(vals) {
		case 0:
			return nil, true
		case 1:
			return vals[0], true
		}
		return vals, true
	}
	const eg = "golang.org/x/sync/errgroup"
	e.Intercepts[eg+".WithContext"] = func(ps *PathState, fr *frame, fn *ssa.Function, args []value) value {
		return tuple{&egObj{}, iface{t: symCtxType, v: &ctxObj{name: "derived", x: x}}}
	}
	e.Intercepts["(*"+eg+".Group).Go"] = func(ps *PathState, fr *frame, fn *ssa.Function, args []value) value {
		if x.cur.thread != 0 {
			panic(unsupported{"eg.Go inside a goroutine"})
		}
		var cfn *ssa.Function
		switch c := args[1].(type) {
		case *closure:
			cfn = c.Fn
		case *ssa.Function:
			cfn = c
		default:
			panic(unsupported{fmt.Sprintf("eg.Go of %T", args[1])})
		}
		id, ok := x.spawnIdx[cfn]
		if !ok {
			id = len(x.spawnIdx) + 1
			x.spawnIdx[cfn] = id
			x.spawnFns[id] = args[1]
		}
		x.rec(ps, CEvent{Kind: "spawn", Spawned: id, Site: "main:errgroup-go", Line: x.lineOf(ps.interp.callpos)})
		return nil
	}
	e.Intercepts["(*"+eg+".Group).SetLimit"] = func(ps *PathState, fr *frame, fn *ssa.Function, args []value) value {
		n, ok := args[1].(int)
		if !ok {
			panic(unsupported{fmt.Sprintf("eg.SetLimit of %T", args[1])})
		}
		if x.cur.thread != 0 || x.spawnedOnPath() {
			panic(unsupported{"eg.SetLimit after a goroutine was started"})
		}
		if n >= 0 {
			x.prog.LimitSet, x.prog.Limit = true, n
		}
		return nil
	}
	for _, m := range []string{"TryGo"} {
		m := m
		e.Intercepts["(*"+eg+".Group)."+m] = func(ps *PathState, fr *frame, fn *ssa.Function, args []value) value {
			panic(unsupported{"errgroup.Group." + m + " is not modelled"})
		}
	}
	e.Intercepts["(*"+eg+".Group).Wait"] = func(ps *PathState, fr *frame, fn *ssa.Function, args []value) value {
		ev := x.rec(ps, CEvent{Kind: "wait", Decision: true, Site: x.siteOf(), Line: x.lineOf(ps.interp.callpos)})
		werr := "werr_" + ev.Key
		ev.Err = werr
		c := ps.Choice(2, "werr")
		ev.Choice = c
		if c == 0 {
			return iface{}
		}
		return NewErr("wait", werr, "wait error", nil)
	}
}

func (x *Extractor) spawnedOnPath() bool {
	for _, ev := range x.cur.events {
		if ev.Kind == "spawn" {
			return true
		}
	}
	return false
}

// returnSite classifies a return by what immediately precedes it.
func (x *Extractor) returnSite() string {
	evs := x.cur.events
	who := x.siteOf()
	for i := len(evs) - 1; i >= 0; i-- {
		ev := evs[i]
		switch ev.Kind {
		case "rd", "wr":
			continue
		case "exit":
			if ev.Failed {
				return who + ":provider-error-check"
			}
			return who + ":end"
		case "sel":
			if ev.Chans[ev.Choice].Kind == "done" {
				return who + ":select-ctx-branch"
			}
			return who + ":end"
		case "wait":
			if ev.Choice == 1 {
				return who + ":wait-result"
			}
			return who + ":end"
		default:
			return who + ":end"
		}
	}
	return who + ":end"
}

// ExtractInjector runs F and every closure it spawns.
func ExtractInjector(e *Engine, pkg *ssa.Package, f *ssa.Function) *CProgram {
	return ExtractInjectorOpt(e, pkg, f, ExtractOptions{})
}

func ExtractInjectorOpt(e *Engine, pkg *ssa.Package, f *ssa.Function, opt ExtractOptions) *CProgram {
	x := &Extractor{Opt: opt, E: e, Pkg: pkg, F: f,
		cells: map[*value]string{}, cellIDs: map[*ssa.Alloc]string{}, chanIDs: map[*ssa.MakeChan]string{},
		spawnFns: map[int]value{}, spawnIdx: map[*ssa.Function]int{},
		prog: &CProgram{Func: f.Name(), Provs: map[string]int{}, Flds: map[string]bool{}}}
	sig := f.Signature
	res := sig.Results()
	x.prog.HasErrRes = res.Len() > 0 && types.Unalias(res.At(res.Len()-1).Type()).String() == "error"
	x.prog.NParams = sig.Params().Len()
	x.install()
	defer func() {
		e.Hooks = nil
		e.AllocHook = nil
		e.OpaqueCall = nil
	}()
	mkArgs := func(ps *PathState) []value {
		var args []value
		x.prog.ParamTerms = nil
		for i := 0; i < sig.Params().Len(); i++ {
			t := sig.Params().At(i).Type()
			if t.String() == "context.Context" {
				args = append(args, iface{t: symCtxType, v: &ctxObj{name: "parent", x: x}})
				x.prog.ParamTerms = append(x.prog.ParamTerms, "in_ctx")
				continue
			}
			// types of other packages keep their import path (two packages may share a name)
			term := "in_" + sanitize(types.TypeString(t, func(p *types.Package) string {
				if p == nil || (x.Pkg != nil && p == x.Pkg.Pkg) {
					return ""
				}
				return p.Path()
			}))
			x.prog.ParamTerms = append(x.prog.ParamTerms, term)
			var v value = vsym(term)
			if _, isIface := t.Underlying().(*types.Interface); isIface {
				v = iface{t: t, v: vsym(term)}
			}
			args = append(args, v)
		}
		return args
	}
	runThread := func(id int, name string, fnv value, fn *ssa.Function, mk func(ps *PathState) []value) {
		th := &CThread{ID: id, Name: name}
		results := e.runValue(fnv, fn, mk, func(ps *PathState) {
			x.cur = &concPath{thread: id, entry: fn}
		}, func(ps *PathState, r *PathResult) {
			p := CPath{Thread: id, Events: x.cur.events, Outcome: r.Outcome, Decisions: r.Decisions}
			th.Paths = append(th.Paths, p)
			if r.Outcome != "ok" {
				x.prog.Unsupported = append(x.prog.Unsupported, name+": "+r.Outcome)
			}
		})
		_ = results
		x.prog.Threads = append(x.prog.Threads, th)
	}
	runThread(0, "main", f, f, mkArgs)
	for id := 1; id <= len(x.spawnFns); id++ {
		fv := x.spawnFns[id]
		var fn *ssa.Function
		switch c := fv.(type) {
		case *closure:
			fn = c.Fn
		case *ssa.Function:
			fn = c
		}
		runThread(id, fmt.Sprintf("g%d", id), fv, fn, nil)
	}
	return x.prog
}

// toVT renders a value of static type t; aggregates built by the code itself
// (struct literals) become constructor terms over their fields.
func toVT(v value, t types.Type) string {
	if t == nil {
		return toV(v)
	}
	switch x := v.(type) {
	case iface:
		if x.t == nil {
			return "ZEROV"
		}
		if x.t == symCtxType {
			return "in_ctx"
		}
		return toVT(x.v, x.t)
	case *value:
		if x == nil {
			return "ZEROV"
		}
		if pt, ok := t.Underlying().(*types.Pointer); ok {
			if st, ok := pt.Elem().Underlying().(*types.Struct); ok {
				if s, isStruct := (*x).(structure); isStruct {
					return "(mkp_" + sanitize(types.TypeString(pt.Elem(), qualNone)) + structFields(s, st) + ")"
				}
				if sy, isSym := (*x).(Sym); isSym {
					return "(addr " + sy.T + ")"
				}
			}
		}
		return "PTR"
	case structure:
		if st, ok := t.Underlying().(*types.Struct); ok {
			if allZero(x) {
				return "ZEROV" // var zero T; return zero, err
			}
			return "(mk_" + sanitize(types.TypeString(t, qualNone)) + structFields(x, st) + ")"
		}
	}
	return toV(v)
}

// allZero reports whether every field of a struct value is the zero value of its type.
func allZero(s structure) bool {
	for _, f := range s {
		switch v := f.(type) {
		case nil:
		case bool:
			if v {
				return false
			}
		case string:
			if v != "" {
				return false
			}
		case int:
			if v != 0 {
				return false
			}
		case int64:
			if v != 0 {
				return false
			}
		case structure:
			if !allZero(v) {
				return false
			}
		case iface:
			if v.t != nil {
				return false
			}
		case *value:
			if v != nil {
				return false
			}
		default:
			return false
		}
	}
	return true
}

func structFields(s structure, st *types.Struct) string {
	var sb strings.Builder
	for i, f := range s {
		sb.WriteByte(' ')
		if i < st.NumFields() {
			sb.WriteString(toVT(f, st.Field(i).Type()))
		} else {
			sb.WriteString(toV(f))
		}
	}
	return sb.String()
}
