package symx

import (
	"fmt"
	"go/types"
	"os"

	"golang.org/x/tools/go/ssa"
)

const migratePkg = "github.com/mazrean/kessoku/internal/migrate"

// InstallMigrateStubs replaces packages.Load, the pattern extraction and the
// transformation under Migrator.MigrateFiles by nondeterministic stubs and
// records os.WriteFile, so that every failure position of a migration over
// <= 2 packages x <= 2 files is explored (C14: a failing migration writes no file).
func InstallMigrateStubs(e *Engine) {
	rec := func(ps *PathState, ev ProcEvent) { ps.Record(ev) }
	ic := e.Intercepts
	fieldIdx := func(st *types.Struct, name string) int {
		for i := 0; i < st.NumFields(); i++ {
			if st.Field(i).Name() == name {
				return i
			}
		}
		panic(unsupported{"packages.Package has no field " + name})
	}
	ic["golang.org/x/tools/go/packages.Load"] = func(ps *PathState, fr *frame, fn *ssa.Function, args []value) value {
		if ps.Choice(2, "load") == 1 {
			rec(ps, ProcEvent{Op: "load-error"})
			return tuple{[]value(nil), NewErr("stub", "packages.Load", "load failed", nil)}
		}
		pkgPtrT := fn.Signature.Results().At(0).Type().Underlying().(*types.Slice).Elem()
		pkgT := mustDeref(pkgPtrT)
		st := pkgT.Underlying().(*types.Struct)
		npk := 1 + ps.Choice(2, "npkgs")
		var pkgs []value
		for i := 0; i < npk; i++ {
			s := zero(pkgT).(structure)
			// package names: equal or different (mixed packages are a refusal reason)
			name := "p"
			if i > 0 && ps.Choice(2, "pkgname") == 1 {
				name = "q"
			}
			s[fieldIdx(st, "Name")] = name
			// with NeedTypes every loaded package carries type information, erroneous ones too
			if ti := fieldIdxOf(st, "Types"); st.Field(ti).Name() == "Types" {
				if pt, ok := st.Field(ti).Type().Underlying().(*types.Pointer); ok {
					var tcell value = zero(pt.Elem())
					s[ti] = &tcell
				}
			}
			if ps.Choice(2, "pkgerr") == 1 {
				errT := st.Field(fieldIdx(st, "Errors")).Type().Underlying().(*types.Slice).Elem()
				pe := zero(errT).(structure)
				est := errT.Underlying().(*types.Struct)
				pe[fieldIdxOf(est, "Msg")] = "syntax error"
				s[fieldIdx(st, "Errors")] = []value{pe}
				rec(ps, ProcEvent{Op: "package-error", N: i})
			}
			nfiles := 1 + ps.Choice(2, "nfiles")
			var syntax, names []value
			for f := 0; f < nfiles; f++ {
				var fileCell value = zero(mustDeref(st.Field(fieldIdx(st, "Syntax")).Type().Underlying().(*types.Slice).Elem()))
				syntax = append(syntax, &fileCell)
				names = append(names, fmt.Sprintf("%s%d_%d.go", name, i, f))
			}
			s[fieldIdx(st, "Syntax")] = syntax
			s[fieldIdx(st, "CompiledGoFiles")] = names
			s[fieldIdx(st, "GoFiles")] = names
			var cell value = s
			pkgs = append(pkgs, &cell)
		}
		rec(ps, ProcEvent{Op: "load", N: npk})
		return tuple{pkgs, iface{}}
	}
	ic["(*"+migratePkg+".Parser).FindWireImport"] = func(ps *PathState, fr *frame, fn *ssa.Function, args []value) value {
		if ps.Choice(2, "wireimport") == 1 {
			return ""
		}
		return "wire"
	}
	ic["(*"+migratePkg+".Parser).ExtractImports"] = func(ps *PathState, fr *frame, fn *ssa.Function, args []value) value {
		mt := fn.Signature.Results().At(0).Type().Underlying().(*types.Map)
		return makeMap(mt.Key(), mt.Elem(), 0)
	}
	ic["(*"+migratePkg+".Parser).ExtractPatterns"] = func(ps *PathState, fr *frame, fn *ssa.Function, args []value) value {
		if ps.Choice(2, "patterns") == 1 {
			return tuple{[]value(nil), []value(nil)}
		}
		return tuple{[]value{iface{}}, []value(nil)}
	}
	ic["(*"+migratePkg+".Transformer).Transform"] = func(ps *PathState, fr *frame, fn *ssa.Function, args []value) value {
		if ps.Choice(2, "transform") == 1 {
			rec(ps, ProcEvent{Op: "transform-error"})
			return tuple{[]value(nil), NewErr("stub", "transform", "missing constructor", nil)}
		}
		rec(ps, ProcEvent{Op: "transform"})
		return tuple{[]value(nil), iface{}}
	}
	ic["go/format.Node"] = func(ps *PathState, fr *frame, fn *ssa.Function, args []value) value {
		if ps.Choice(2, "format") == 1 {
			rec(ps, ProcEvent{Op: "format-error"})
			return NewErr("stub", "format", "format error", nil)
		}
		rec(ps, ProcEvent{Op: "format"})
		return iface{}
	}
	ic["os.WriteFile"] = func(ps *PathState, fr *frame, fn *ssa.Function, args []value) value {
		if ps.Choice(2, "writefile") == 1 {
			rec(ps, ProcEvent{Op: "os.WriteFile-error", File: fmt.Sprint(args[0])})
			return NewErr("stub", "os.WriteFile", "permission denied", nil)
		}
		rec(ps, ProcEvent{Op: "os.WriteFile", File: fmt.Sprint(args[0])})
		return iface{}
	}
	// the same write spelled as OpenFile + Write + (Sync) + Close: one nondeterministic failure
	// for the whole group, recorded like os.WriteFile (I/O errors while writing are outside the
	// failure kinds the property lists; what matters is that no write happens on a refusal)
	ic["os.OpenFile"] = func(ps *PathState, fr *frame, fn *ssa.Function, args []value) value {
		if ps.Choice(2, "openfile") == 1 {
			rec(ps, ProcEvent{Op: "os.WriteFile-error", File: fmt.Sprint(args[0])})
			return tuple{(*fileObj)(nil), NewErr("stub", "os.OpenFile", "permission denied", nil)}
		}
		note := ""
		if flag := int(asInt64(args[1])); flag&os.O_TRUNC == 0 && flag&os.O_APPEND == 0 && flag&os.O_EXCL == 0 {
			note = " (opened without O_TRUNC)"
		}
		rec(ps, ProcEvent{Op: "os.WriteFile", File: fmt.Sprint(args[0]) + note})
		return tuple{&fileObj{name: args[0]}, iface{}}
	}
	ic["(*os.File).Write"] = func(ps *PathState, fr *frame, fn *ssa.Function, args []value) value {
		return tuple{len(bytesOf(args[1])), iface{}}
	}
	ic["(*os.File).WriteString"] = func(ps *PathState, fr *frame, fn *ssa.Function, args []value) value {
		n := 0
		if s, ok := args[1].(string); ok {
			n = len(s)
		}
		return tuple{n, iface{}}
	}
	ic["(*os.File).Sync"] = func(ps *PathState, fr *frame, fn *ssa.Function, args []value) value { return iface{} }
	ic["(*os.File).Close"] = func(ps *PathState, fr *frame, fn *ssa.Function, args []value) value { return iface{} }
	ic["(*os.File).Name"] = func(ps *PathState, fr *frame, fn *ssa.Function, args []value) value {
		return args[0].(*fileObj).name
	}
	// the synthetic FileSet of Writer.Write only serves the printer, which is stubbed
	ic["(*go/token.FileSet).AddFile"] = func(ps *PathState, fr *frame, fn *ssa.Function, args []value) value {
		var cell value = zero(mustDeref(fn.Signature.Results().At(0).Type()))
		return &cell
	}
	ic["(*go/token.File).SetLines"] = func(ps *PathState, fr *frame, fn *ssa.Function, args []value) value { return true }
}

func fieldIdxOf(st *types.Struct, name string) int {
	for i := 0; i < st.NumFields(); i++ {
		if st.Field(i).Name() == name {
			return i
		}
	}
	return 0
}
