// Copyright 2013 The Go Authors. All rights reserved.
// Use of this source code is governed by a BSD-style
// license that can be found in the LICENSE file.

package symx

// Ordered map used for every Go map in the interpreted program. Unlike the
// upstream interpreter (which delegates to the host's randomised maps) the
// iteration order is the insertion order, optionally permuted by the engine,
// so that every run is reproducible and map-order nondeterminism becomes an
// explicit decision (C11).
//
// A map whose key type is string may additionally hold entries with symbolic
// keys. From the first symbolic update on, the map is an ordered update log:
// lookups build an ite chain over the log (the array theory unfolded).

import (
	"fmt"
	"go/types"
	"strings"

	"kverif/internal/smt"
)

func smtStr(s string) string { return smt.StrLit(s) }

type hashable interface {
	hash(t types.Type) int
	eq(t types.Type, x any) bool
}

type oentry struct {
	key  value
	val  value
	dead bool
}

type omap struct {
	keyType  types.Type
	elemType types.Type
	ents     []*oentry
	idx      map[int][]int // hash -> indices into ents (concrete, live); valid while nsym == 0
	n        int
	nsym     int
}

func makeMap(kt, et types.Type, reserve int64) value {
	return &omap{keyType: kt, elemType: et, idx: make(map[int][]int)}
}

func (m *omap) find(k value) int {
	h := hash(m.keyType, m.keyType, k)
	for _, i := range m.idx[h] {
		e := m.ents[i]
		if !e.dead && equals(m.keyType, e.key, k) {
			return i
		}
	}
	return -1
}

func (m *omap) delete(k value) {
	if m == nil {
		return
	}
	if _, ok := k.(Sym); ok || m.nsym > 0 {
		panic(unsupported{"delete on a map with symbolic keys"})
	}
	if i := m.find(k); i >= 0 {
		m.ents[i].dead = true
		m.n--
	}
}

// lookupConc is the lookup for maps without symbolic entries and a concrete key.
func (m *omap) lookupConc(k value) (value, bool) {
	if m == nil {
		return nil, false
	}
	if i := m.find(k); i >= 0 {
		return m.ents[i].val, true
	}
	return nil, false
}

func (m *omap) insert(k, v value) {
	if _, ok := k.(Sym); ok {
		m.nsym++
		m.ents = append(m.ents, &oentry{key: k, val: v})
		return
	}
	if m.nsym > 0 {
		m.ents = append(m.ents, &oentry{key: k, val: v})
		return
	}
	if i := m.find(k); i >= 0 {
		m.ents[i].val = v
		return
	}
	h := hash(m.keyType, m.keyType, k)
	m.ents = append(m.ents, &oentry{key: k, val: v})
	m.idx[h] = append(m.idx[h], len(m.ents)-1)
	m.n++
}

func (m *omap) len() int {
	if m == nil {
		return 0
	}
	if m.nsym > 0 {
		panic(unsupported{"len of a map with symbolic keys"})
	}
	return m.n
}

// live returns the live entries in insertion order.
func (m *omap) live() []*oentry {
	if m == nil {
		return nil
	}
	if m.nsym > 0 {
		panic(unsupported{"range over a map with symbolic keys"})
	}
	out := make([]*oentry, 0, m.n)
	for _, e := range m.ents {
		if !e.dead {
			out = append(out, e)
		}
	}
	return out
}

// lookupSym performs a lookup that involves symbolic keys (in the map, the
// query, or both). It returns the value term and the presence term.
func (m *omap) lookupSym(ps *PathState, k value) (value, value) {
	zeroV := zero(m.elemType)
	zt, ok := toSym(zeroV)
	// set-like maps (map[K]struct{}): the element carries no information, only the
	// presence term matters; a boolean placeholder stands for the element internally
	unit := false
	if st, isStruct := zeroV.(structure); !ok && isStruct && len(st) == 0 {
		unit, ok, zt = true, true, Sym{S: SBool, T: "false"}
	}
	if !ok {
		panic(unsupported{fmt.Sprintf("symbolic-key lookup in map with element type %s", m.elemType)})
	}
	valT := zt.T
	okT := "false"
	if m == nil {
		if unit {
			return zeroV, false
		}
		return Sym{S: zt.S, T: valT}, false
	}
	kt, _ := toSym(k)
	_, kSym := k.(Sym)
	// oldest -> newest so that newer entries wrap older ones. Runs of
	// concrete string keys with the same value collapse into one regular
	// expression membership test (keeps the 69 reserved words one term).
	var runKeys []string
	runVal := ""
	flush := func() {
		if len(runKeys) == 0 {
			return
		}
		var c string
		if len(runKeys) == 1 {
			c = "(= " + kt.T + " " + smtStr(runKeys[0]) + ")"
		} else {
			parts := make([]string, len(runKeys))
			for i, k := range runKeys {
				parts[i] = "(str.to_re " + smtStr(k) + ")"
			}
			c = "(str.in_re " + kt.T + " (re.union " + strings.Join(parts, " ") + "))"
		}
		valT = "(ite " + c + " " + runVal + " " + valT + ")"
		switch okT {
		case "true":
		case "false":
			okT = c
		default:
			okT = "(or " + c + " " + okT + ")"
		}
		runKeys = nil
	}
	for _, e := range m.ents {
		if e.dead {
			continue
		}
		ev, ok := toSym(e.val)
		if unit {
			ev, ok = Sym{S: SBool, T: "true"}, true
		}
		if !ok {
			panic(unsupported{"symbolic-key lookup with non-scalar element"})
		}
		_, eSym := e.key.(Sym)
		if !eSym && !kSym {
			if equals(m.keyType, e.key, k) {
				flush()
				valT, okT = ev.T, "true"
			}
			continue
		}
		if ks, isStr := e.key.(string); isStr && !eSym {
			if len(runKeys) > 0 && runVal != ev.T {
				flush()
			}
			runKeys = append(runKeys, ks)
			runVal = ev.T
			continue
		}
		flush()
		ek, _ := toSym(e.key)
		c := "(= " + kt.T + " " + ek.T + ")"
		valT = "(ite " + c + " " + ev.T + " " + valT + ")"
		if okT == "true" {
			// stays true
		} else if okT == "false" {
			okT = c
		} else {
			okT = "(or " + c + " " + okT + ")"
		}
	}
	flush()
	var okV value = Sym{S: SBool, T: okT}
	if okT == "true" {
		okV = true
	} else if okT == "false" {
		okV = false
	}
	if s, ok := okV.(Sym); ok {
		okV = ps.Name(s, 48)
	}
	if unit {
		return zeroV, okV
	}
	return ps.Name(Sym{S: zt.S, T: valT}, 48), okV
}
