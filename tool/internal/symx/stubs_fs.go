package symx

// Nondeterministic filesystem for the installer (DESIGN §4 "Filesystem").
// Every os call is a numbered step. Before step n the process may crash
// (crashAt == n) and step n may fail (faultAt == n); crashAt and faultAt are
// symbolic integers whose feasible values the solver decides, so that one
// exploration covers every crash point and every single injected fault.
// Paths may be concrete strings or symbolic terms (C16).

import (
	"crypto/sha256"
	"fmt"
	"os"
	"path/filepath"
	"sort"
	"strings"

	"go/types"

	"golang.org/x/tools/go/ssa"
	"kverif/internal/smt"
)

type FSNode struct {
	Content string // "empty", "partial:<hash>", "full:<hash>"
	Mode    uint32
	Temp    bool
	Data    []byte // prior files only: what ReadFile returns
	stale   bool   // opened for writing without O_TRUNC, nothing written yet
}

type FSEvent struct {
	Step int
	Op   string
	Path value // string or Sym
	Dst  value
	Note string
}

// FSModel is the per-path filesystem state.
type FSModel struct {
	Nodes      map[string]*FSNode // key: path text (concrete string, or term text for symbolic paths)
	Prior      map[string]*FSNode // files that existed before the run (same keys); Nodes overrides
	Removed    map[string]bool
	StatCalls  int
	PathVals   map[string]value
	Dirs       map[string]bool
	Events     []FSEvent
	Step       int
	CrashAt    Sym
	FaultAt    Sym
	Crashed    bool
	CrashStep  int
	ShortWrite bool
	Faulted    int // step at which a fault was injected, -1 if none
	FaultOp    string
	ntmp       int
	SrcRoot    string // on-disk directory standing in for the embed.FS
	BaseClass  int    // 0 absent, 1 directory, 2 regular file, 3 unreadable
	HomeErr    bool
	Home, Cwd  value
	AbsOf      map[string]value
	Mode       string // "fault" (crash+fault exploration) or "trace"
	WriteMid   bool
	// ExploreUmask: the process umask is an environment parameter; when a file is created
	// with an explicit permission argument (OpenFile, WriteFile, Create) the run forks over
	// {022, 027, 077} (once per path). Chmod is not subject to the umask; CreateTemp creates
	// 0600 whatever the umask. Without ExploreUmask the umask is 022.
	Env          map[string]value // environment variables read so far (symbolic values)
	ExploreUmask bool
	umask        int // -1: not chosen yet
	UmaskUsed    bool
}

var umaskChoices = []uint32{0o022, 0o027, 0o077}

// createMode is the mode a file created with permission argument perm receives.
func (m *FSModel) createMode(ps *PathState, perm uint32) uint32 {
	if m.umask < 0 {
		m.umask = 0o022
		if m.ExploreUmask {
			m.umask = int(umaskChoices[ps.Choice(len(umaskChoices), "umask")])
		}
	}
	m.UmaskUsed = true
	return perm &^ uint32(m.umask)
}

// Umask reports the umask of the path (022 unless explored).
func (m *FSModel) Umask() int {
	if m.umask < 0 {
		return 0o022
	}
	return m.umask
}

func pathKey(v value) string {
	switch p := v.(type) {
	case string:
		return p
	case Sym:
		return canonConcat(p.T)
	}
	return fmt.Sprint(v)
}

// canonConcat flattens nested str.++ applications and merges adjacent string
// literals, so that paths built by different nestings of Join get one key.
func canonConcat(term string) string {
	sx, err := smt.ParseSexp(term)
	if err != nil || sx == nil {
		return term
	}
	var parts []string
	var walk func(x *smt.Sexp)
	walk = func(x *smt.Sexp) {
		if x.IsL && len(x.List) > 0 && x.List[0].Atom == "str.++" {
			for _, c := range x.List[1:] {
				walk(c)
			}
			return
		}
		t := x.String()
		if n := len(parts); n > 0 && strings.HasPrefix(t, "\"") && strings.HasPrefix(parts[n-1], "\"") {
			a, ok1 := smt.ParseStrLit(parts[n-1])
			b, ok2 := smt.ParseStrLit(t)
			if ok1 && ok2 {
				parts[n-1] = smt.StrLit(a + b)
				return
			}
		}
		parts = append(parts, t)
	}
	walk(sx)
	if len(parts) == 1 {
		return parts[0]
	}
	return "(str.++ " + strings.Join(parts, " ") + ")"
}

func (m *FSModel) event(op string, p, dst value, note string) {
	m.Events = append(m.Events, FSEvent{Step: m.Step, Op: op, Path: p, Dst: dst, Note: note})
}

// step numbers the operation, handles crash and fault injection, and returns
// whether the operation must fail.
func (m *FSModel) step(ps *PathState, op string) (fail bool) {
	n := m.Step
	m.Step++
	if m.Mode != "fault" {
		return false
	}
	if ps.Branch(Sym{S: SBool, T: fmt.Sprintf("(= %s %d)", m.CrashAt.T, n)}) {
		m.Crashed = true
		m.CrashStep = n
		panic(pathEnd{fmt.Sprintf("crash before step %d (%s)", n, op)})
	}
	if m.Faulted < 0 && ps.Branch(Sym{S: SBool, T: fmt.Sprintf("(= %s %d)", m.FaultAt.T, n)}) {
		m.Faulted = n
		m.FaultOp = op
		return true
	}
	return false
}

func fsErr(op string, n int) value {
	return NewErr("fs", fmt.Sprintf("fs:%s@%d", op, n), "injected "+op+" failure", nil)
}

var errNotExist = NewErr("fs", "fs:notexist", "file does not exist", nil)

type fileObj struct {
	name   value
	closed bool
}

type dirEntry struct {
	name  string
	isDir bool
}

type fileInfo struct {
	isDir bool
	size  int64
	mode  uint32
}

var (
	dirEntryType = newOpaqueNamed("verif.DirEntry")
	fileInfoType = newOpaqueNamed("verif.FileInfo")
)

func init() {
	hostTypes[dirEntryType] = func(recv iface, name string) hostFn {
		d := recv.v.(*dirEntry)
		switch name {
		case "IsDir":
			return func(fr *frame, args []value) value { return d.isDir }
		case "Name":
			return func(fr *frame, args []value) value { return d.name }
		}
		return nil
	}
	hostTypes[fileInfoType] = func(recv iface, name string) hostFn {
		d := recv.v.(*fileInfo)
		switch name {
		case "IsDir":
			return func(fr *frame, args []value) value { return d.isDir }
		case "Size":
			return func(fr *frame, args []value) value { return d.size }
		case "Mode":
			return func(fr *frame, args []value) value { return d.mode }
		}
		return nil
	}
}

// lookup returns the file at path as the run would currently see it.
func (m *FSModel) lookup(p value) *FSNode {
	k := pathKey(p)
	if n, ok := m.Nodes[k]; ok {
		return n
	}
	if m.Removed[k] {
		return nil
	}
	return m.Prior[k]
}

func bytesOf(v value) []byte {
	vs, _ := v.([]value)
	out := make([]byte, len(vs))
	for i, b := range vs {
		out[i] = byte(asInt64(b))
	}
	return out
}

func hashBytes(b []byte) string {
	h := sha256.Sum256(b)
	return fmt.Sprintf("%x", h[:8])
}

// joinPath implements filepath.Join on clean operands, symbolic or concrete.
func joinPath(parts []value) value {
	allConc := true
	for _, p := range parts {
		if _, ok := p.(string); !ok {
			allConc = false
		}
	}
	if allConc {
		ss := make([]string, len(parts))
		for i, p := range parts {
			ss[i] = p.(string)
		}
		return filepath.Join(ss...)
	}
	// symbolic: operands are assumed clean and non-empty; "." components vanish
	var ts []string
	for i, p := range parts {
		if s, ok := p.(string); ok {
			s = filepath.Clean(s)
			if s == "." || s == "" {
				continue
			}
			if i > 0 {
				ts = append(ts, smt.StrLit("/"+strings.TrimPrefix(s, "/")))
			} else {
				ts = append(ts, smt.StrLit(s))
			}
			continue
		}
		sy := p.(Sym)
		if i > 0 {
			ts = append(ts, `"/"`)
		}
		ts = append(ts, sy.T)
	}
	if len(ts) == 1 {
		return Sym{S: SString, T: ts[0]}
	}
	return Sym{S: SString, T: "(str.++ " + strings.Join(ts, " ") + ")"}
}

// InstallFSStubs installs the filesystem stubs; newModel is called at the
// start of every path and its result is stored in ps.User.
func InstallFSStubs(e *Engine, srcRoot string) {
	model := func(ps *PathState) *FSModel { return ps.User.(*FSModel) }
	ic := e.Intercepts
	ic["os.MkdirAll"] = func(ps *PathState, fr *frame, fn *ssa.Function, args []value) value {
		m := model(ps)
		if m.step(ps, "MkdirAll") {
			m.event("mkdirall-failed", args[0], nil, "")
			return fsErr("MkdirAll", m.Step-1)
		}
		m.Dirs[pathKey(args[0])] = true
		m.event("mkdirall", args[0], nil, "")
		return iface{}
	}
	ic["os.CreateTemp"] = func(ps *PathState, fr *frame, fn *ssa.Function, args []value) value {
		m := model(ps)
		if m.step(ps, "CreateTemp") {
			return tuple{(*fileObj)(nil), fsErr("CreateTemp", m.Step-1)}
		}
		m.ntmp++
		pat, _ := args[1].(string)
		name := joinPath([]value{args[0], strings.Replace(pat, "*", fmt.Sprintf("%d", m.ntmp), 1)})
		m.Nodes[pathKey(name)] = &FSNode{Content: "empty", Mode: 0o600, Temp: true}
		m.PathVals[pathKey(name)] = name
		m.event("createtemp", name, nil, "")
		return tuple{&fileObj{name: name}, iface{}}
	}
	ic["(*os.File).Name"] = func(ps *PathState, fr *frame, fn *ssa.Function, args []value) value {
		return args[0].(*fileObj).name
	}
	ic["(*os.File).Write"] = func(ps *PathState, fr *frame, fn *ssa.Function, args []value) value {
		m := model(ps)
		f := args[0].(*fileObj)
		data := bytesOf(args[1])
		h := hashBytes(data)
		node := m.Nodes[pathKey(f.name)]
		if node == nil {
			node = &FSNode{Mode: 0o600}
			m.Nodes[pathKey(f.name)] = node
			m.PathVals[pathKey(f.name)] = f.name
		}
		if m.step(ps, "Write") {
			// a failing write may have appended a strict prefix
			if ps.Choice(2, "shortwrite") == 1 && len(data) > 0 {
				m.ShortWrite = true
				node.Content = "partial:" + h
				m.event("write-short", f.name, nil, h)
				return tuple{len(data) / 2, fsErr("Write", m.Step-1)}
			}
			m.event("write-failed", f.name, nil, h)
			return tuple{0, fsErr("Write", m.Step-1)}
		}
		// the process may die in the middle of the write
		node.Content = "partial:" + h
		if m.Mode == "fault" && len(data) > 0 {
			n := m.Step
			m.Step++
			if ps.Branch(Sym{S: SBool, T: fmt.Sprintf("(= %s %d)", m.CrashAt.T, n)}) {
				m.Crashed = true
				m.CrashStep = n
				m.event("write-interrupted", f.name, nil, h)
				panic(pathEnd{fmt.Sprintf("crash inside Write (step %d)", n)})
			}
		}
		if strings.HasPrefix(node.Content, "partial:stale") || node.stale {
			// written over an untruncated file: a longer previous content keeps its tail
			if len(node.Data) > len(data) {
				node.Content = "mixed:" + h
			} else {
				node.Content = "full:" + h
			}
			node.stale = false
		} else {
			node.Content = "full:" + h
		}
		m.event("write", f.name, nil, h)
		return tuple{len(data), iface{}}
	}
	simple := func(op string) Intercept {
		return func(ps *PathState, fr *frame, fn *ssa.Function, args []value) value {
			m := model(ps)
			f := args[0].(*fileObj)
			if m.step(ps, op) {
				m.event(strings.ToLower(op)+"-failed", f.name, nil, "")
				if op == "Close" {
					f.closed = true // the descriptor is gone even if Close reports an error
				}
				return fsErr(op, m.Step-1)
			}
			if op == "Close" {
				f.closed = true
			}
			m.event(strings.ToLower(op), f.name, nil, "")
			return iface{}
		}
	}
	ic["(*os.File).Sync"] = simple("Sync")
	ic["(*os.File).Close"] = simple("Close")
	ic["os.Chmod"] = func(ps *PathState, fr *frame, fn *ssa.Function, args []value) value {
		m := model(ps)
		if m.step(ps, "Chmod") {
			return fsErr("Chmod", m.Step-1)
		}
		if node := m.Nodes[pathKey(args[0])]; node != nil {
			node.Mode = uint32(asInt64(args[1]))
		} else {
			m.Nodes[pathKey(args[0])] = &FSNode{Content: "prior", Mode: uint32(asInt64(args[1]))}
			m.PathVals[pathKey(args[0])] = args[0]
		}
		m.event("chmod", args[0], nil, fmt.Sprintf("%o", asInt64(args[1])))
		return iface{}
	}
	ic["(*os.File).Chmod"] = func(ps *PathState, fr *frame, fn *ssa.Function, args []value) value {
		m := model(ps)
		f := args[0].(*fileObj)
		if m.step(ps, "Chmod") {
			return fsErr("Chmod", m.Step-1)
		}
		if node := m.Nodes[pathKey(f.name)]; node != nil {
			node.Mode = uint32(asInt64(args[1]))
		}
		m.event("chmod", f.name, nil, fmt.Sprintf("%o", asInt64(args[1])))
		return iface{}
	}
	ic["os.Rename"] = func(ps *PathState, fr *frame, fn *ssa.Function, args []value) value {
		m := model(ps)
		if m.step(ps, "Rename") {
			return fsErr("Rename", m.Step-1)
		}
		src, dst := pathKey(args[0]), pathKey(args[1])
		if node := m.Nodes[src]; node != nil {
			cp := *node
			cp.Temp = false
			m.Nodes[dst] = &cp
			m.PathVals[dst] = args[1]
			delete(m.Nodes, src)
		}
		m.event("rename", args[0], args[1], "")
		return iface{}
	}
	ic["os.Remove"] = func(ps *PathState, fr *frame, fn *ssa.Function, args []value) value {
		m := model(ps)
		if m.step(ps, "Remove") {
			return fsErr("Remove", m.Step-1)
		}
		delete(m.Nodes, pathKey(args[0]))
		m.Removed[pathKey(args[0])] = true
		m.event("remove", args[0], nil, "")
		return iface{}
	}
	// Direct writers (not used by the pinned installer; modelled so that a
	// changed installer is judged rather than refused).
	ic["os.WriteFile"] = func(ps *PathState, fr *frame, fn *ssa.Function, args []value) value {
		m := model(ps)
		data := bytesOf(args[1])
		h := hashBytes(data)
		if m.step(ps, "WriteFile") {
			return fsErr("WriteFile", m.Step-1)
		}
		node := &FSNode{Content: "empty", Mode: 0}
		if old := m.lookup(args[0]); old != nil {
			node.Mode = old.Mode // an existing file keeps its mode
		} else {
			node.Mode = m.createMode(ps, uint32(asInt64(args[2])))
		}
		m.Nodes[pathKey(args[0])] = node
		m.PathVals[pathKey(args[0])] = args[0]
		if m.Mode == "fault" {
			n := m.Step
			m.Step++
			node.Content = "partial:" + h
			if ps.Branch(Sym{S: SBool, T: fmt.Sprintf("(= %s %d)", m.CrashAt.T, n)}) {
				m.Crashed = true
				m.CrashStep = n
				panic(pathEnd{"crash inside WriteFile"})
			}
		}
		node.Content = "full:" + h
		m.event("writefile", args[0], nil, h)
		return iface{}
	}
	ic["os.Create"] = func(ps *PathState, fr *frame, fn *ssa.Function, args []value) value {
		m := model(ps)
		if m.step(ps, "Create") {
			return tuple{(*fileObj)(nil), fsErr("Create", m.Step-1)}
		}
		cmode := uint32(0)
		if old := m.lookup(args[0]); old != nil {
			cmode = old.Mode
		} else {
			cmode = m.createMode(ps, 0o666)
		}
		m.Nodes[pathKey(args[0])] = &FSNode{Content: "empty", Mode: cmode}
		m.PathVals[pathKey(args[0])] = args[0]
		m.event("create", args[0], nil, "")
		return tuple{&fileObj{name: args[0]}, iface{}}
	}
	ic["os.OpenFile"] = func(ps *PathState, fr *frame, fn *ssa.Function, args []value) value {
		m := model(ps)
		flag := int(asInt64(args[1]))
		if m.step(ps, "OpenFile") {
			return tuple{(*fileObj)(nil), fsErr("OpenFile", m.Step-1)}
		}
		old := m.lookup(args[0])
		switch {
		case old != nil && flag&os.O_CREATE != 0 && flag&os.O_EXCL != 0:
			return tuple{(*fileObj)(nil), NewErr("fs", "fs:exist", "file exists", nil)}
		case old == nil && flag&os.O_CREATE == 0:
			return tuple{(*fileObj)(nil), errNotExist}
		case old == nil:
			temp := strings.HasPrefix(filepath.Base(fmt.Sprint(args[0])), ".tmp-")
			if sy, ok := args[0].(Sym); ok {
				temp = strings.Contains(sy.T, "/.tmp-")
			}
			m.Nodes[pathKey(args[0])] = &FSNode{Content: "empty", Mode: m.createMode(ps, uint32(asInt64(args[2]))), Temp: temp}
		case flag&os.O_TRUNC != 0:
			m.Nodes[pathKey(args[0])] = &FSNode{Content: "empty", Mode: old.Mode, Temp: old.Temp}
		default:
			// opened for writing without truncation: what is written replaces a prefix only
			cp := *old
			cp.stale = true
			m.Nodes[pathKey(args[0])] = &cp
		}
		m.PathVals[pathKey(args[0])] = args[0]
		m.event("openfile", args[0], nil, fmt.Sprintf("flag=%#x", flag))
		return tuple{&fileObj{name: args[0]}, iface{}}
	}
	// randomness: fresh values (the contract of a random source used for unique names)
	for _, name := range []string{"math/rand/v2.Uint64", "math/rand/v2.Uint32", "math/rand/v2.Int", "math/rand/v2.Int64", "math/rand.Int", "math/rand.Int63", "math/rand.Uint64", "math/rand.Uint32"} {
		ic[name] = func(ps *PathState, fr *frame, fn *ssa.Function, args []value) value {
			m := model(ps)
			m.ntmp++
			res := fn.Signature.Results().At(0).Type().Underlying().(*types.Basic)
			return convertBasicInt(res.Kind(), int64(7919*m.ntmp+104729))
		}
	}
	ic["os.Stat"] = func(ps *PathState, fr *frame, fn *ssa.Function, args []value) value {
		m := model(ps)
		m.event("stat", args[0], nil, "")
		if n := m.lookup(args[0]); n != nil {
			return tuple{iface{t: fileInfoType, v: &fileInfo{isDir: false, size: int64(len(n.Data)), mode: n.Mode}}, iface{}}
		}
		if len(m.Prior) > 0 && m.StatCalls > 0 {
			// only the first Stat of a run addresses the base directory
			return tuple{iface{}, errNotExist}
		}
		m.StatCalls++
		switch m.BaseClass {
		case 0:
			return tuple{iface{}, errNotExist}
		case 1:
			return tuple{iface{t: fileInfoType, v: &fileInfo{isDir: true}}, iface{}}
		case 2:
			return tuple{iface{t: fileInfoType, v: &fileInfo{isDir: false}}, iface{}}
		}
		return tuple{iface{}, NewErr("fs", "fs:stat-denied", "permission denied", nil)}
	}
	ic["os.Lstat"] = ic["os.Stat"]
	ic["os.ReadFile"] = func(ps *PathState, fr *frame, fn *ssa.Function, args []value) value {
		m := model(ps)
		m.event("stat", args[0], nil, "readfile")
		n := m.lookup(args[0])
		if n == nil {
			return tuple{[]value(nil), errNotExist}
		}
		out := make([]value, len(n.Data))
		for i, b := range n.Data {
			out[i] = b
		}
		return tuple{out, iface{}}
	}
	ic["bytes.Equal"] = func(ps *PathState, fr *frame, fn *ssa.Function, args []value) value {
		return string(bytesOf(args[0])) == string(bytesOf(args[1]))
	}
	ic["os.IsNotExist"] = func(ps *PathState, fr *frame, fn *ssa.Function, args []value) value {
		e := RootErr(args[0])
		return e != nil && e.ID == "fs:notexist"
	}
	ic["os.UserHomeDir"] = func(ps *PathState, fr *frame, fn *ssa.Function, args []value) value {
		m := model(ps)
		if m.HomeErr {
			return tuple{"", NewErr("fs", "fs:nohome", "$HOME is not defined", nil)}
		}
		return tuple{m.Home, iface{}}
	}
	// environment variables other than HOME are arbitrary: one symbolic string per name and
	// path (set or unset is part of the value: "" = unset or empty)
	envOf := func(ps *PathState, name value) value {
		m := model(ps)
		n, ok := name.(string)
		if !ok {
			panic(unsupported{"os.Getenv of a symbolic name"})
		}
		if n == "HOME" {
			return m.Home
		}
		if m.Env == nil {
			m.Env = map[string]value{}
		}
		if v, ok := m.Env[n]; ok {
			return v
		}
		v := value(ps.Fresh(SString, "env_"+n))
		m.Env[n] = v
		m.event("getenv", n, nil, "")
		return v
	}
	ic["os.Getenv"] = func(ps *PathState, fr *frame, fn *ssa.Function, args []value) value {
		return envOf(ps, args[0])
	}
	ic["os.LookupEnv"] = func(ps *PathState, fr *frame, fn *ssa.Function, args []value) value {
		v := envOf(ps, args[0])
		if ps.Choice(2, "lookupenv") == 0 {
			return tuple{"", false}
		}
		return tuple{v, true}
	}
	ic["os.Getwd"] = func(ps *PathState, fr *frame, fn *ssa.Function, args []value) value {
		return tuple{model(ps).Cwd, iface{}}
	}
	ic["path/filepath.Join"] = func(ps *PathState, fr *frame, fn *ssa.Function, args []value) value {
		return joinPath(variadic(args[0]))
	}
	ic["path/filepath.Abs"] = func(ps *PathState, fr *frame, fn *ssa.Function, args []value) value {
		m := model(ps)
		if s, ok := args[0].(string); ok {
			if filepath.IsAbs(s) {
				return tuple{filepath.Clean(s), iface{}}
			}
			return tuple{joinPath([]value{m.Cwd, s}), iface{}}
		}
		// symbolic (clean) path: absolute paths are returned as they are,
		// relative ones are joined to the working directory
		sy := args[0].(Sym)
		if ps.Branch(Sym{S: SBool, T: `(str.prefixof "/" ` + sy.T + `)`}) {
			return tuple{sy, iface{}}
		}
		return tuple{joinPath([]value{m.Cwd, sy}), iface{}}
	}
	ic["path/filepath.IsAbs"] = func(ps *PathState, fr *frame, fn *ssa.Function, args []value) value {
		if s, ok := args[0].(string); ok {
			return filepath.IsAbs(s)
		}
		return Sym{S: SBool, T: `(str.prefixof "/" ` + args[0].(Sym).T + `)`}
	}
	ic["path/filepath.Clean"] = func(ps *PathState, fr *frame, fn *ssa.Function, args []value) value {
		if s, ok := args[0].(string); ok {
			return filepath.Clean(s)
		}
		return args[0] // symbolic paths are assumed clean
	}
	for _, n := range []string{"Dir", "Base"} {
		n := n
		ic["path/filepath."+n] = func(ps *PathState, fr *frame, fn *ssa.Function, args []value) value {
			s, ok := args[0].(string)
			if !ok {
				panic(unsupported{"filepath." + n + " of a symbolic path"})
			}
			if n == "Dir" {
				return filepath.Dir(s)
			}
			return filepath.Base(s)
		}
	}
	ic["path/filepath.Rel"] = func(ps *PathState, fr *frame, fn *ssa.Function, args []value) value {
		a, ok1 := args[0].(string)
		b, ok2 := args[1].(string)
		if !ok1 || !ok2 {
			panic(unsupported{"filepath.Rel of symbolic paths"})
		}
		r, err := filepath.Rel(a, b)
		if err != nil {
			return tuple{"", NewErr("fs", "fs:rel", err.Error(), nil)}
		}
		return tuple{r, iface{}}
	}
	// embed.FS is the directory on disk (in the scratch copy) at check time.
	ic["io/fs.Stat"] = func(ps *PathState, fr *frame, fn *ssa.Function, args []value) value {
		p := filepath.Join(srcRoot, args[1].(string))
		st, err := os.Stat(p)
		if err != nil {
			return tuple{iface{}, errNotExist}
		}
		return tuple{iface{t: fileInfoType, v: &fileInfo{isDir: st.IsDir()}}, iface{}}
	}
	ic["io/fs.ReadFile"] = func(ps *PathState, fr *frame, fn *ssa.Function, args []value) value {
		data, err := os.ReadFile(filepath.Join(srcRoot, args[1].(string)))
		if err != nil {
			return tuple{[]value(nil), errNotExist}
		}
		out := make([]value, len(data))
		for i, b := range data {
			out[i] = b
		}
		return tuple{out, iface{}}
	}
	ic["io/fs.WalkDir"] = func(ps *PathState, fr *frame, fn *ssa.Function, args []value) value {
		root := args[1].(string)
		cb := args[2]
		var walk func(rel string) value
		walk = func(rel string) value {
			st, err := os.Stat(filepath.Join(srcRoot, rel))
			if err != nil {
				return call(fr.i, fr, 0, cb, []value{rel, iface{}, errNotExist})
			}
			de := iface{t: dirEntryType, v: &dirEntry{name: filepath.Base(rel), isDir: st.IsDir()}}
			if r := call(fr.i, fr, 0, cb, []value{rel, de, iface{}}); !IsNilIface(r) {
				return r
			}
			if !st.IsDir() {
				return iface{}
			}
			ents, _ := os.ReadDir(filepath.Join(srcRoot, rel))
			names := make([]string, 0, len(ents))
			for _, e := range ents {
				names = append(names, e.Name())
			}
			sort.Strings(names)
			for _, n := range names {
				if r := walk(filepath.Join(rel, n)); !IsNilIface(r) {
					return r
				}
			}
			return iface{}
		}
		return walk(root)
	}
}

// NewFSModel creates the model for one path.
func NewFSModel(ps *PathState, mode, srcRoot string) *FSModel {
	m := &FSModel{umask: -1, Prior: map[string]*FSNode{}, Removed: map[string]bool{}, Nodes: map[string]*FSNode{}, PathVals: map[string]value{}, Dirs: map[string]bool{}, Faulted: -1, SrcRoot: srcRoot, Mode: mode, AbsOf: map[string]value{}}
	if mode == "fault" {
		m.CrashAt = ps.Fresh(SInt, "crashAt")
		m.FaultAt = ps.Fresh(SInt, "faultAt")
	}
	return m
}

// IsSymErr etc. helpers for drivers.
func ErrID(v value) string {
	if e := RootErr(v); e != nil {
		return e.ID
	}
	return ""
}

func TupleAt(v value, i int) value { return v.(tuple)[i] }
func IsSymVal(v value) (Sym, bool) { s, ok := v.(Sym); return s, ok }

// DynTypeName returns the dynamic type of an interface value.
func DynTypeName(v value) string {
	if i, ok := v.(iface); ok && i.t != nil {
		return i.t.String()
	}
	return ""
}

// TermOf renders a path value as SMT term text.
func TermOf(v value) string {
	s, _ := toSym(v)
	return s.T
}

// Events/paths helpers
func (m *FSModel) MutatingEvents() []FSEvent {
	var out []FSEvent
	for _, e := range m.Events {
		switch e.Op {
		case "stat":
		default:
			out = append(out, e)
		}
	}
	return out
}

// Query asks the path's solver whether pc ∧ term is satisfiable.
func (ps *PathState) Query(term string) (string, map[string]string) {
	v, m := ps.sol.CheckAssuming([]string{term}, ps.symNames())
	return v.String(), m
}

func JoinPath(parts ...value) value { return joinPath(parts) }

// SetPrior registers a file that exists before the run.
func (m *FSModel) SetPrior(path value, data []byte, mode uint32) {
	m.Prior[pathKey(path)] = &FSNode{Content: "full:" + hashBytes(data), Mode: mode, Data: data}
	m.PathVals[pathKey(path)] = path
}

// Snapshot returns the files the run leaves behind (written, and prior ones neither replaced
// nor removed), keyed by path.
func (m *FSModel) Snapshot() map[string]FSNode {
	out := map[string]FSNode{}
	for k, n := range m.Prior {
		if !m.Removed[k] {
			out[k] = *n
		}
	}
	for k, n := range m.Nodes {
		out[k] = *n
	}
	return out
}

// SetPriorNode registers a file left behind by an earlier run.
func (m *FSModel) SetPriorNode(path string, n FSNode) {
	cp := n
	cp.stale = false
	if cp.Data == nil {
		cp.Data = []byte(cp.Content)
	}
	m.Prior[path] = &cp
	m.PathVals[path] = path
}

// Effective returns the file at path after the run (written or prior).
func (m *FSModel) Effective(path value) *FSNode { return m.lookup(path) }

func convertBasicInt(k types.BasicKind, v int64) value {
	switch k {
	case types.Uint64:
		return uint64(v)
	case types.Uint32:
		return uint32(v)
	case types.Int64:
		return v
	case types.Int32:
		return int32(v)
	case types.Uint:
		return uint(v)
	}
	return int(v)
}
