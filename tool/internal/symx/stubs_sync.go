package symx

import (
	"go/token"

	"golang.org/x/tools/go/ssa"
)

// InstallSyncStubs makes sync.Mutex / sync.Once / sync/atomic sequential
// no-ops or plain memory operations (the interpreter runs one thread).
func InstallSyncStubs(e *Engine) {
	nop := func(ps *PathState, fr *frame, fn *ssa.Function, args []value) value { return nil }
	for _, n := range []string{"(*sync.Mutex).Lock", "(*sync.Mutex).Unlock", "(*sync.RWMutex).Lock", "(*sync.RWMutex).Unlock", "(*sync.RWMutex).RLock", "(*sync.RWMutex).RUnlock"} {
		e.Intercepts[n] = nop
	}
	load := func(ps *PathState, fr *frame, fn *ssa.Function, args []value) value { return *(args[0].(*value)) }
	store := func(ps *PathState, fr *frame, fn *ssa.Function, args []value) value {
		*(args[0].(*value)) = args[1]
		return nil
	}
	for _, t := range []string{"Uint32", "Int32", "Uint64", "Int64", "Pointer", "Uintptr"} {
		e.Intercepts["sync/atomic.Load"+t] = load
		e.Intercepts["sync/atomic.Store"+t] = store
	}
	add := func(ps *PathState, fr *frame, fn *ssa.Function, args []value) value {
		p := args[0].(*value)
		*p = symBinop(token.ADD, nil, *p, args[1])
		return *p
	}
	for _, t := range []string{"Uint32", "Int32", "Uint64", "Int64", "Uintptr"} {
		e.Intercepts["sync/atomic.Add"+t] = add
	}
	cas := func(ps *PathState, fr *frame, fn *ssa.Function, args []value) value {
		p := args[0].(*value)
		if equalsSafe(nil, *p, args[1]) {
			*p = args[2]
			return true
		}
		return false
	}
	for _, t := range []string{"Uint32", "Int32", "Uint64", "Int64", "Uintptr", "Pointer"} {
		e.Intercepts["sync/atomic.CompareAndSwap"+t] = cas
	}
	e.Intercepts["internal/godebug.New"] = func(ps *PathState, fr *frame, fn *ssa.Function, args []value) value { return (*value)(nil) }
	e.Intercepts["(*internal/godebug.Setting).Value"] = func(ps *PathState, fr *frame, fn *ssa.Function, args []value) value { return "" }
	e.Intercepts["(*internal/godebug.Setting).IncNonDefault"] = nop
	e.Intercepts["(*internal/godebug.Setting).Name"] = func(ps *PathState, fr *frame, fn *ssa.Function, args []value) value { return "" }
	e.Intercepts["(*sync.Once).Do"] = func(ps *PathState, fr *frame, fn *ssa.Function, args []value) value {
		o := args[0].(*value)
		st := (*o).(structure)
		if done, _ := st[len(st)-1].(bool); done {
			return nil
		}
		call(fr.i, fr, 0, args[1], nil)
		return nil
	}
}

func init() {
	str := func(v value) string {
		s, ok := v.(string)
		if !ok {
			panic(unsupported{"assembly string helper on a symbolic string"})
		}
		return s
	}
	defaultIntercepts["internal/bytealg.IndexByteString"] = func(ps *PathState, fr *frame, fn *ssa.Function, args []value) value {
		s := str(args[0])
		c := byte(asInt64(args[1]))
		for i := 0; i < len(s); i++ {
			if s[i] == c {
				return i
			}
		}
		return -1
	}
	defaultIntercepts["internal/bytealg.CountString"] = func(ps *PathState, fr *frame, fn *ssa.Function, args []value) value {
		s := str(args[0])
		c := byte(asInt64(args[1]))
		n := 0
		for i := 0; i < len(s); i++ {
			if s[i] == c {
				n++
			}
		}
		return n
	}
	defaultIntercepts["internal/bytealg.IndexString"] = func(ps *PathState, fr *frame, fn *ssa.Function, args []value) value {
		a, b := str(args[0]), str(args[1])
		for i := 0; i+len(b) <= len(a); i++ {
			if a[i:i+len(b)] == b {
				return i
			}
		}
		return -1
	}
	defaultIntercepts["internal/bytealg.LastIndexByteString"] = func(ps *PathState, fr *frame, fn *ssa.Function, args []value) value {
		s := str(args[0])
		c := byte(asInt64(args[1]))
		for i := len(s) - 1; i >= 0; i-- {
			if s[i] == c {
				return i
			}
		}
		return -1
	}
	defaultIntercepts["internal/stringslite.Index"] = defaultIntercepts["internal/bytealg.IndexString"]
	defaultIntercepts["strings.Index"] = defaultIntercepts["internal/bytealg.IndexString"]
	defaultIntercepts["strings.IndexByte"] = defaultIntercepts["internal/bytealg.IndexByteString"]
}

func init() {
	// maps.Clone is implemented by the runtime (linkname); copy the ordered map.
	cl := func(ps *PathState, fr *frame, fn *ssa.Function, args []value) value {
		m, ok := args[0].(*omap)
		if !ok {
			// maps.clone(m any) any: the argument arrives boxed
			if i, isI := args[0].(iface); isI {
				m, _ = i.v.(*omap)
				if m == nil {
					return args[0]
				}
				c := cloneOmap(m)
				return iface{t: i.t, v: c}
			}
			panic(unsupported{"maps.Clone of a non-map"})
		}
		if m == nil {
			return m
		}
		return cloneOmap(m)
	}
	defaultIntercepts["maps.clone"] = cl
	defaultIntercepts["maps.Clone"] = cl
}

func cloneOmap(m *omap) *omap {
	c := &omap{keyType: m.keyType, elemType: m.elemType, idx: make(map[int][]int), nsym: m.nsym}
	for _, e := range m.ents {
		if e.dead {
			continue
		}
		c.ents = append(c.ents, &oentry{key: e.key, val: e.val})
		if _, isSym := e.key.(Sym); !isSym && m.nsym == 0 {
			h := hash(m.keyType, m.keyType, e.key)
			c.idx[h] = append(c.idx[h], len(c.ents)-1)
			c.n++
		}
	}
	return c
}

func init() {
	// sort.Slice uses reflection to build its swapper; do it host-side with
	// the interpreted less function (insertion sort: stable and simple).
	defaultIntercepts["sort.Slice"] = func(ps *PathState, fr *frame, fn *ssa.Function, args []value) value {
		xs, ok := args[0].(iface)
		if !ok {
			panic(unsupported{"sort.Slice of a non-slice"})
		}
		s, ok := xs.v.([]value)
		if !ok {
			return nil
		}
		less := args[1]
		lt := func(i, j int) bool {
			r := call(fr.i, fr, 0, less, []value{i, j})
			switch b := r.(type) {
			case bool:
				return b
			case Sym:
				return ps.Branch(b)
			}
			panic(unsupported{"sort.Slice: less returned a non-boolean"})
		}
		for i := 1; i < len(s); i++ {
			for j := i; j > 0 && lt(j, j-1); j-- {
				s[j], s[j-1] = s[j-1], s[j]
			}
		}
		return nil
	}
	defaultIntercepts["sort.SliceStable"] = defaultIntercepts["sort.Slice"]
}
