# source this: offline Go environment for building the tool module and scratch modules
export PATH=/root/go/pkg/mod/golang.org/toolchain@v0.0.1-go1.25.5.linux-amd64/bin:$PATH
export GOTOOLCHAIN=local GOFLAGS=-mod=mod GOPROXY=off GOSUMDB=off
