#!/usr/bin/env python3
"""Development aid: merges the inputs collected with VERIF_COLLECT_KNOWN=<tsv> (runs of the
checks on the pinned tree) into known_findings.json (findings[].inputs). Never run by a
registered command."""
import json, sys, collections
tsvs = sys.argv[1:]
k = json.load(open('/verif/known_findings.json'))
col = collections.defaultdict(set)
for t in tsvs:
    for l in open(t):
        pid, sig, inp = l.rstrip('\n').split('\t')
        col[(pid, sig)].add(inp)
def sigstr(s):
    return ''.join(f'{a}={s[a]};' for a in sorted(s))
for f in k['findings']:
    key = (f['property'], sigstr(f['signature']))
    if key in col:
        f['inputs'] = sorted(set(f.get('inputs', [])) | col[key])
        print(f['property'], f['text'][:4], len(f['inputs']), 'inputs')
json.dump(k, open('/verif/known_findings.json', 'w'), indent=1)
