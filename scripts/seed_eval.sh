#!/bin/bash
# usage: seed_eval.sh <patch.diff> <check ids...>
# Applies the patch to a scratch worktree of /repo's HEAD (never to /repo itself, so registered
# runs are not disturbed), runs the checks against it (VERIF_REPO) with evidence and replays
# written to a scratch output directory (VERIF_OUT), removes both.
P=$1; shift
cd /verif
case "$P" in /*) ;; *) P="/verif/$P";; esac
W=$(mktemp -d /tmp/seedeval.XXXXXX)
git -C /repo worktree add --detach -q "$W/repo" HEAD || exit 2
trap 'git -C /repo worktree remove --force "$W/repo" 2>/dev/null; rm -rf "$W"' EXIT
git -C "$W/repo" apply "$P" || { echo "patch does not apply"; exit 2; }
for id in "$@"; do
  echo "== $id"; VERIF_REPO="$W/repo" VERIF_OUT="$W/out" timeout 3000 ./bin/kv check $id --tier ${TIER:-quick} 2>&1 | grep -v "${FILTER:-^  signature\|^KNOWN-FINDING}" | tail -${LINES_OUT:-6} | cut -c1-400; echo "exit=${PIPESTATUS[0]}"
done
