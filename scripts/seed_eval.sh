#!/bin/bash
# usage: seed_eval.sh <patch.diff> <check ids...> -- applies the patch to /repo, runs the quick checks, reverts.
P=$1; shift
cd /verif
case "$P" in /*) ;; *) P="/verif/$P";; esac
[ -z "$(git -C /repo status --porcelain)" ] || { echo "/repo is not clean: refusing (another evaluation running?)"; exit 2; }
git -C /repo apply "$P" || { echo "patch does not apply"; exit 2; }
for id in "$@"; do
  echo "== $id"; timeout 1500 ./bin/kv check $id --tier ${TIER:-quick} 2>&1 | grep -v "^  signature\|^KNOWN-FINDING" | tail -${LINES_OUT:-6} | cut -c1-400; echo "exit=${PIPESTATUS[0]}"
done
git -C /repo checkout -- .
git -C /repo status --short
