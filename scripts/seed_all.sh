#!/bin/bash
# usage: seed_all.sh [out-file] -- regression over every kept seed: each must be reported by
# (at least) the quick check(s) named in its meta.json "detected_by".
OUT=${1:-/tmp/seed_all.log}
cd /verif
: > "$OUT"
for d in seeded/*/; do
  n=$(basename $d)
  [ -f $d/meta.json ] || continue
  ids=$(python3 -c "import json,sys; m=json.load(open('$d/meta.json')); print(' '.join(m.get('detected_by') or [m['property']]))")
  p=$d/patch.diff
  if ! git -C /repo apply --check "/verif/$p" 2>/dev/null; then echo "$n SKIP patch does not apply to HEAD" >> "$OUT"; continue; fi
  for id in $ids; do
    r=$(LINES_OUT=400 scripts/seed_eval.sh $p $id 2>&1)
    if echo "$r" | grep -q "^VIOLATION property=$id"; then echo "$n $id DETECTED" >> "$OUT"; else echo "$n $id MISSED: $(echo "$r" | tail -2 | tr '\n' ' ' | cut -c1-200)" >> "$OUT"; fi
  done
done
echo done >> "$OUT"
