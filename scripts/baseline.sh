#!/bin/bash
# Runs the repository's own test suite (the pinned baseline command) on a scratch
# copy of /repo's working tree, without any build tag. Never runs go inside /repo.
set -u
export PATH=/root/go/pkg/mod/golang.org/toolchain@v0.0.1-go1.25.5.linux-amd64/bin:$PATH
export GOTOOLCHAIN=local GOPROXY=off GOSUMDB=off
unset GOFLAGS
REPO=${VERIF_REPO:-/repo}
D=$(mktemp -d "${TMPDIR:-/tmp}/kverif-baseline-XXXXXX")
trap 'chmod -R u+w "$D" 2>/dev/null; rm -rf "$D"' EXIT
rsync -a --exclude=.git "$REPO"/ "$D/repo/"
cd "$D/repo" || exit 2
go test -json -vet=off -count=1 -timeout 25m ./... > "$D/out.json" 2> "$D/err.txt"
rc=$?
python3 - "$D/out.json" <<'PY'
import json,sys
p=f=0; failed=[]
for l in open(sys.argv[1]):
    try: e=json.loads(l)
    except Exception: continue
    if e.get('Test') and e.get('Action') in ('pass','fail'):
        if e['Action']=='pass': p+=1
        else: f+=1; failed.append(e['Package']+'::'+e['Test'])
print(f"baseline: {p} passed, {f} failed")
for t in failed[:20]: print("FAILED", t)
PY
tail -5 "$D/err.txt"
exit $rc
