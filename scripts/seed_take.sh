#!/bin/bash
# usage: seed_take.sh <worktree> <name under seeded/> <check ids...> -- confirm a sub-agent's seed, keep it, evaluate it.
WT=$1; NAME=$2; shift 2
cd /verif
scripts/seed_confirm.sh "$WT" 2>&1 | grep -v "^    " | grep "baseline:\|exit=\|== "
mkdir -p seeded/$NAME
cp -r "$WT"/seed_out/* seeded/$NAME/ 2>/dev/null
find seeded/$NAME -name '*.log' -size +100k -delete
git -C "$WT" diff -- . ':!go.work.sum' ':!seed_out' > /tmp/seedtake.$$.diff
cmp -s /tmp/seedtake.$$.diff seeded/$NAME/patch.diff || { echo "note: worktree diff differs from seed_out/patch.diff; using the worktree diff restricted to tracked sources"; }
rm -f /tmp/seedtake.$$.diff
scripts/seed_eval.sh seeded/$NAME/patch.diff "$@"
