#!/usr/bin/env python3
"""Regenerates /verif/MANIFEST.json from the table below (kept in one place so
that claimed checks, not_applicable and engine lists never drift apart)."""
import json

SETUP = "cd /verif/tool && PATH=/root/go/pkg/mod/golang.org/toolchain@v0.0.1-go1.25.5.linux-amd64/bin:$PATH GOTOOLCHAIN=local GOFLAGS=-mod=mod GOPROXY=off GOSUMDB=off go build -o /verif/bin/kv ./cmd/kv"

INJ_NOTE = ("trusted: go/ssa, the symbolic interpreter (fork of x/tools go/ssa/interp), the channel/errgroup/context stubs of DESIGN §4, "
            "z3; the program dimension is a bounded enumeration of declarations (corpus families F1 all DAGs, F2 features, F5 second injector, F6 layered, FG several goroutines needing each other with one fallible node / context parameter per program, FW wide; thorough: + F1 n=5, F4 random, larger FG), every schedule / latency / select choice "
            "/ failure set / cancellation instant of each enumerated injector is decided by the solver; counterexamples are replayed against the real "
            "generated code (go test -race with a schedule controller) before they are reported")
INJ_TECH = "symbolic execution of each generated injector's go/ssa into a partial-order SMT encoding (clock per event); z3 decides every schedule/fault/cancel instant; bounded enumeration of declarations"

CHECKS = {
 "C01": ("model_checking", "for every enumerated declaration the generator (built from the current tree) emits an injector whose go/ssa is encoded with one occurrence bit and one integer clock per event; read-before-write, unordered write/read and write/write pairs and 'entered before its producer returned' are UNSAT for all interleavings/latencies (thorough: also all failure sets and cancellation instants); the order obligation is stated twice: from the generated code's data flow and from the declaration's dependency relation (every provider below a consumer has an exit before the consumer's enter in every execution)", INJ_NOTE, INJ_TECH, "§5 C01"),
 "C02": ("translation_validation", "result term and every provider's argument terms of the generated injector (uninterpreted provider functions, all interleavings) are proved equal to an independent reference evaluation of the abstract declaration; needed providers invoked exactly once, unneeded never; all Async subsets / Set groupings / parameter orders compare against the same reference", INJ_NOTE, INJ_TECH + "; term equality against a reference evaluator", "§5 C02"),
 "C03": ("model_checking", "stuck-state query (no reachable final state without return), double close and join-at-return queries are UNSAT for all interleavings of fault-free, uncancelled runs; the all-success execution must be SAT (vacuity guard)", INJ_NOTE, INJ_TECH, "§5 C03"),
 "C05": ("model_checking", "existential: for every declaration with input-free Async providers the solver must find a schedule in which all of them overlap, and one in which each is entered before any other Async provider returned; UNSAT is the violation; lemma: the real collection.Queue used by the topological sort is FIFO for every Push/Pop sequence of length 13 (thorough 16) with arbitrary values (counterexamples replayed natively)", INJ_NOTE, INJ_TECH, "§5 C05"),
 "C06": ("model_checking", "with every subset of fallible providers failing and the caller never cancelling: nil-error returns, returned errors not produced by an invoked provider, invocation of dependents of a failed provider and non-termination are UNSAT for all interleavings and select choices; one genuine defect (K1) is a listed known finding; the 'returns a non-nil error' clause is also queried with the caller's cancellation instant free; errgroup.SetLimit and ctx.Err() probes are part of the encoding; known finding K1 is pinned to the corpus inputs it occurs on", INJ_NOTE, INJ_TECH, "§5 C06"),
 "C07": ("model_checking", "with the caller cancelling at a free instant (including before the call): stuck states and nil-error returns of a value different from the reference term are UNSAT for all interleavings; two genuine defects of no-error injectors (K2a hang, K2b zero value) are listed known findings; the partial-result clause is also queried with provider failures free; known findings K2a/K2b are pinned to the corpus inputs they occur on, and a hang at another site of the same injector is searched for separately", INJ_NOTE, INJ_TECH, "§5 C07"),
 "C08": ("model_checking", "after the injector's return, in a final state where the caller acts no more, no spawned goroutine stands before a disabled blocking event — for all failure sets, cancellation instants and interleavings; one genuine defect (K3) is a listed known finding; known finding K3 is pinned to the corpus inputs it occurs on: the same site on any other input is reported", INJ_NOTE, INJ_TECH, "§5 C08"),
 "C12": ("other", "bounded symbolic execution of the real VarPool code (go/ssa) over all operation histories up to the stated length with symbolic names; every freshness obligation is an SMT query that must be unsat; the defect it found was fixed (fix: 70d0e03); naming gate through the CLI over the adversarial-name family FN and the transitive-package family FT (generator-introduced import names included in the hygiene check); the same obligations one level up through InjectorParam.Name/ChannelName (either order) so that any allocator entry point behind them is covered; multi-file programs are generated both in one invocation and file by file",
         "trusted: go/ssa, the interpreter fork, fmt.Sprintf stub (str.++/itoa), map-as-update-log model, SMT solvers (portfolio z3 4.8.12 / z3 5.1.0 / cvc5 1.0, first definite answer); names restricted to ASCII identifiers within the length bound",
         "symbolic execution of go/ssa + SMT strings — solver verdict over all names within bounds", "§5 C12"),
}

KNOTE = "trusted: go/ssa, the interpreter fork, the filesystem stubs of DESIGN §4 (each os call fails without effect or has its POSIX effect; Rename atomic; crash = nothing further applied), embed.FS read from the working tree; C15 counterexamples are replayed natively (install.go compiled with its os calls routed through a fault-injection shim; the installer process is killed at the crash step / the step fails) and the stubs are validated against the real OS on a sample of model paths; C16 counterexamples carry the operation trace of the model"
CHECKS["C15"] = ("other", "symbolic execution of the real Install/InstallFile (go/ssa incl. deferred cleanup) with crash position and failing step as symbolic integers decided by z3: every crash point between/inside the filesystem steps and every single injected fault over the whole embedded tree is covered path-completely; per path the model filesystem must show every destination untouched or complete with mode 0644, failures reported, no temp file left, fault-free run complete; base states: destination absent, directory present, previous installation present (older content): on an error return a previously installed file must still be there (previous or new content), evaluated on the effective filesystem (written, removed, prior); every state a crashed or failed run leaves behind is followed by a fault-free run in the model, which must complete the installation (the native replay performs the second run as well)", KNOTE, "symbolic execution of go/ssa with a nondeterministic filesystem stub; crash/fault positions are solver-decided symbolic integers", "§5 C15")
CHECKS["C16"] = ("other", "symbolic execution of the real Install/ResolvePath/ValidatePath and agent methods for all 9 agents with --path, $HOME and cwd as symbolic strings: every mutating filesystem event is proved (unsat str.prefixof query) to lie under <base>/<skill name> with base taken from the README table parsed at check time; installed tree = on-disk skill tree; registry = kong sub-commands = README list; the process umask is an environment parameter of the filesystem model ({022,027,077} wherever a file is created with an explicit permission); every (agent, --user, --path kind, base state) case is also pushed through the CLI built from the working tree on concrete HOME/cwd/--path (absolute, relative, and one starting with a literal ~/ that kong must hand on untouched; also under umask 077) and judged by the same README-derived expectation; environment variables other than HOME are arbitrary symbolic strings (native: XDG_*_HOME set elsewhere)", KNOTE, "symbolic execution of go/ssa with symbolic path strings; SMT string prefix/equality queries (portfolio)", "§5 C16")

CHECKS["C09"] = ("other", "path-complete bounded execution of the real detectCycles (every edge relation over n nodes, diagnostics must be a closed walk naming its types), the real NewGraph (every small declaration over type tokens against a reference for duplicate / orphan Struct / reachable cycle) and the real Processor.ProcessFiles with ParseFile/CreateInjector/os.Create/Generate failing at every position (refusal => no output created, non-nil error; main => exit 1); plus CLI gates: planted-invalid declarations refused with the stale output file untouched, valid corpus declarations accepted with one function each; type tokens are real go/types types, two of them with equal type and package names but different import paths",
  "trusted: go/ssa, the interpreter fork, stubs for the parser/generator/os.Create under processFile; refusals arising inside the parser (Bind, field extraction, Set flattening) are reached only by the CLI gates (go/types and packages.Load are not executable in the interpreter); bounds: graphs <= 4 nodes, <= 3 providers over <= 3 type tokens, 2 files",
  "symbolic interpreter over go/ssa: path-complete bounded execution (forks on nondeterministic inputs; the quantifier is program structure, so solver work is feasibility only) + CLI gates", "§5 C09")

CHECKS["C10"] = ("other", "path-complete bounded execution of the real NewGraph + Graph.Build + injectContextArg + generateInjectorDecl on every declaration with 2 (thorough: 3) providers over real go/types named types (Async/fallible bits, requirement subsets, two unsupplied argument types, context.Context, requirement order), asserting the signature rule on the resulting ast.FuncDecl; plus a gate comparing the go/types signature of every generated corpus function with the reference evaluator",
  "trusted: go/ssa, the interpreter fork (go/types itself is interpreted; sync/atomic and sync.Mutex inside it stubbed as sequential); bounds: <= 3 providers, <= 2 unsupplied argument types + context.Context; larger declarations only through the corpus gate",
  "symbolic interpreter over go/ssa: path-complete bounded execution (the quantifier is program structure; forks on nondeterministic inputs, no solver work) + corpus signature gate", "§5 C10")

CHECKS["C04"] = ("other", "(B) path-complete bounded execution of the real createASTTypeExpr on every type of constructor depth <= 1 (thorough: 2) built with the real go/types constructors, compared with a reference spelling; (A)/(C) gates: generated packages of the feature, naming, hard-coded-identifier, multi-file and second-injector families must type-check and no generated local may shadow a package-level, predeclared or imported name. Four genuine defects found this way were fixed (86df868, 7aaefdb, a97fa84, c1c77a1). 'Compiles' as a universal statement is outside the claim.; (B2) type-imports harness: for every type shape, in both orders in which the generator meets a type (imports collected first / spelled first) and with the package's own name free or already taken, the package qualifiers of the spelled type equal the names of the ReferencedImports the generator will mark used (two genuine defects found and fixed: f49e64c, c1c4a87)",
  "trusted: go/ssa, the interpreter fork (go/types interpreted), the reference renderer in the harness, go/types as compile oracle for the gates; bounds: type constructor depth, corpus families",
  "symbolic interpreter over go/ssa: path-complete bounded execution of createASTTypeExpr over enumerated type shapes + go/types compile/hygiene gates on generated corpus packages", "§5 C04")
CHECKS["C11"] = ("other", "history dimension: the real VarPool serves one symbolic request history twice (second allocator also sees the injector name of a previous output) and must answer identically (SMT strings); map-order dimension: Generate's import block, findMaximumAntichainSize and GetUsedImports run under every map iteration order (the interpreter picks the permutation) with equal results; map-range sites listed from SSA; gates: examples regenerate byte-identically, a determinism corpus is regenerated 4x (GOMAXPROCS 1/16, previous output present, truncated previous output) byte-identically. The defect found (K9) was fixed (e648b7e).; rerun gates: previous / truncated / longer stale output, GOMAXPROCS 1,2,5,16 (thorough 1..16) over the determinism inputs and the wide family",
  "trusted: go/ssa, the interpreter fork, format.Node stub, cvc5/z3; the parser (packages.Load) is reached only by the gates; GOMAXPROCS/process randomness only through map order (no go statement in the generator, checked on SSA) and repeated CLI runs",
  "symbolic execution of go/ssa + SMT strings (two-run equality), nondeterministic map iteration order in the interpreter, CLI rerun gates", "§5 C11")

CHECKS["C14"] = ("other", "alias allocator: symbolic execution of the real TypeConverter.AddImport over every history of 3 (thorough: 4) calls with symbolic paths/names (same path => same alias, distinct paths => distinct aliases; SMT strings, native replay); import table under every map iteration order; gates through the CLI on the wire corpus: byte-identical second run, gofmt-stable, type-checks with the wire files set aside, each set declared once; invalid inputs (syntax error, type error, duplicate set name, missing constructor) exit non-zero and write nothing; every configuration is also migrated into a path that already holds a longer stale file (result must equal the fresh-path output)",
  "trusted: go/ssa, the interpreter fork, fmt.Sprintf stub, cvc5/z3, go/types and go/format as oracles of the gates; 'imports exactly what it uses' / 'compiles' only per enumerated configuration; Migrator.MigrateFiles is executed with loader, extraction, transformation, printer and os.WriteFile stubbed at every failure position (real mergeResults and Writer.Write)",
  "symbolic execution of go/ssa + SMT strings for the alias allocator; enumeration gates through the real CLI for well-formedness", "§5 C14")

CHECKS["C13"] = ("translation_validation", "oracle = google/wire v0.7.0 itself: for every enumerated wire configuration (DAG family, construct family, repository testdata) wire's injector and the injector kessoku generates from the migrated file are both executed symbolically from go/ssa (providers uninterpreted, struct literals as constructor terms, failures forked at every fallible call); result terms, multisets of (provider, argument terms), parameter lists and the error of every single-failure path must agree. The defect found (K10, Bind by-name constructor) was fixed (5450be3).",
  "trusted: go/ssa, the interpreter fork, google/wire built from the module cache, providers as deterministic uninterpreted functions; configurations wire rejects are outside the quantifier; bound: the enumerated configurations",
  "symbolic execution of both generated injectors (go/ssa) and comparison of closed terms in the free term algebra (sequential code: no schedule dimension, no SMT query needed)", "§5 C13")

NA_REASON = "check under construction in this session (DESIGN.md §10 build order); not claimed yet"

def main():
    props = [json.loads(l)["id"] for l in open("/verif/properties.jsonl")]
    checks = []
    for pid in props:
        if pid not in CHECKS:
            continue
        cat, text, note, tech, ref = CHECKS[pid]
        checks.append({
            "property_id": pid,
            "quick_cmd": f"./bin/kv check {pid} --tier quick",
            "thorough_cmd": f"./bin/kv check {pid} --tier thorough",
            "evidence_file": f"/verif/evidence/{pid}.json",
            "replay_cmd_template": "./bin/kv replay {path}",
            "engine": "kv",
            "level_claimed": {"category": cat, "text": text, "design_ref": "DESIGN.md " + ref},
            "level_note": note,
            "technique": tech,
        })
    m = {
        "version": 1,
        "setup_cmd": SETUP,
        "hooks": {"guard": "verif", "enable": "no hooks: harness files are copied into a scratch copy of /repo at check time (tag 'verif' reserved, unused)",
                  "baseline_off_cmd": "/verif/scripts/baseline.sh", "source_commits": [], "add_only": True},
        "engines": [{"name": "kv", "path": "/verif/tool", "serves_properties": sorted(CHECKS),
                     "kind_free_text": "symbolic interpreter over go/ssa (fork of x/tools go/ssa/interp) + partial-order concurrency encoder + SMT-LIB2 drivers (z3 4.8.12, z3 5.1.0, cvc5 1.0)"}],
        "checks": checks,
        "not_applicable": [{"property_id": p, "reason": NA.get(p, NA_REASON)} for p in props if p not in CHECKS],
        "notes": "Twelve genuine defects were repaired with 'fix:' commits in /repo (known_findings.json 'fixed', DESIGN.md A.4). Known findings K1 (C06), K2a/K2b (C07), K3 (C08) are genuine defects pinned by the golden tests; each is listed with its signature and the corpus inputs it occurs on, so the same site on another input is still reported (DESIGN.md A.2, A.4). 95 seeded changes with what detects them: /verif/seeded/*/meta.json, DESIGN.md A.5.",
    }
    json.dump(m, open("/verif/MANIFEST.json", "w"), indent=1)

NA = {}
if __name__ == "__main__":
    main()
