#!/bin/bash
# Development aid (never part of a registered command): re-collects, on the pinned tree, the
# corpus inputs on which the listed known findings occur (both tiers) and writes them into
# known_findings.json. Run after any change to the corpus families or to /repo.
cd /verif
[ -z "$(git -C /repo status --porcelain)" ] || { echo "/repo is not clean"; exit 2; }
python3 - <<'PY'
import json
k=json.load(open('/verif/known_findings.json'))
for f in k['findings']: f.pop('inputs',None)
json.dump(k,open('/verif/known_findings.json','w'),indent=1)
PY
T=$(mktemp /tmp/known_collect.XXXXXX)
for tier in quick thorough; do
  for id in C06 C07 C08; do
    VERIF_COLLECT_KNOWN=$T VERIF_OUT=/tmp/known_refresh_out ./bin/kv check $id --tier $tier 2>&1 | grep -v "^KNOWN\|^  signature" | tail -1
  done
done
python3 scripts/known_inputs.py $T
rm -rf $T /tmp/known_refresh_out
