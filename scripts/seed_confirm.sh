#!/bin/bash
# usage: seed_confirm.sh <worktree> -- confirms a seeded change: suite passes with it,
# demo fails with it and passes without it. Leaves the worktree with the patch applied.
export PATH=/root/go/pkg/mod/golang.org/toolchain@v0.0.1-go1.25.5.linux-amd64/bin:$PATH GOTOOLCHAIN=local GOPROXY=off GOSUMDB=off; unset GOFLAGS
WT=$1
cd "$WT" || exit 2
echo "== suite with patch"; VERIF_REPO=$WT /verif/scripts/baseline.sh | head -5
echo "== demo with patch"; (bash seed_out/run_demo.sh >/tmp/seed_demo_with.log 2>&1; echo "exit=$?"); tail -3 /tmp/seed_demo_with.log
git apply -R seed_out/patch.diff || { echo "cannot reverse patch"; exit 2; }
echo "== demo without patch"; (bash seed_out/run_demo.sh >/tmp/seed_demo_without.log 2>&1; echo "exit=$?"); tail -3 /tmp/seed_demo_without.log
git apply seed_out/patch.diff
git checkout -- go.work.sum 2>/dev/null
