#!/bin/bash
# Development aid: runs every quick check on the pinned tree (rewrites /verif/evidence), validates
# the evidence files against the schema and regenerates the results table of DESIGN.md (A.3).
cd /verif
for id in C01 C02 C03 C04 C05 C06 C07 C08 C09 C10 C11 C12 C13 C14 C15 C16; do
  s=$(date +%s); ./bin/kv check $id --tier quick > /tmp/q_$id.log 2>&1; echo "$id exit=$? wall=$(( $(date +%s)-s ))"
  grep -h "VIOLATION\|MACHINERY" /tmp/q_$id.log | head -3
done
python3-vt - <<'PY'
import json,jsonschema,glob
sch=json.load(open('/root/.vp/EVIDENCE.schema.json'))
for f in sorted(glob.glob('/verif/evidence/*.json')):
    try: jsonschema.validate(json.load(open(f)),sch)
    except Exception as ex: print(f,'BAD',str(ex)[:200])
print('evidence validated')
PY
python3 - <<'PY'
import json
verd={'C06':'K1 (known finding)','C07':'K2a, K2b (known findings)','C08':'K3 (known finding)','C04':'holds after 8 fixes','C11':'holds after 2 fixes','C12':'holds after 1 fix','C13':'holds after 1 fix'}
def g(c,*ks): return ', '.join(f'{k.replace("_"," ")} {c[k]}' for k in ks if k in c)
pref=['programs','injectors','injectors_with_goroutines','events','paths','distinct_types','type_spelling_paths','type_import_paths','gate_packages','NewGraph_paths','detectCycles_paths','processFiles_paths','gate_invalid_programs','gate_valid_programs','gate_reruns','naming_gate_programs','native_cli_cases','later_runs_from_leftover_states','solver_queries','queries_unsat','queries_sat','string_queries','traces_validated_against_impl']
rows=[]
for i in range(1,17):
    pid=f'C{i:02d}'; e=json.load(open(f'/verif/evidence/{pid}.json')); c=e['coverage']
    ks=[k for k in pref if isinstance(c.get(k),(int,float)) and c.get(k)]
    rows.append(f"| {pid} | {e['wall_s']:.0f} s | {verd.get(pid,'holds')} | {g(c,*ks)}; solver {c.get('solver_time_s',0):.0f} s |")
tbl="| id | wall | verdict | counters from `evidence/<id>.json` |\n|---|---|---|---|\n"+"\n".join(rows)+"\n"
p='/verif/DESIGN.md'; s=open(p).read()
a=s.index('### A.3'); b=s.index('### A.4')
c1=json.load(open('/verif/evidence/C01.json'))['coverage']
s=s[:a]+"### A.3 Results on the pinned tree (quick tier, 16 cores; numbers copied from the committed evidence)\n\n"+tbl+f"\nC01–C03 and C05–C08 share one corpus ({c1.get('programs')} programs, {c1.get('injectors')} injectors, {c1.get('injectors_with_goroutines')} with goroutines, {c1.get('events')} events); wall time is dominated by running the real CLI over the corpus and by extraction.\n\n"+s[b:]
open(p,'w').write(s)
print('A.3 regenerated')
PY
